module verif

go 1.26.2

require (
	golang.org/x/tools v0.48.0
	pgregory.net/rapid v1.3.0
)
