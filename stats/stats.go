// Package stats collects what a check process actually explored and writes
// it to the file named by VERIF_STATS; the driver merges these files into
// evidence/<id>.json. It depends on the standard library only, so that tests
// injected into the garble module can use it too.
package stats

import (
	"crypto/sha256"
	"encoding/hex"
	"encoding/json"
	"fmt"
	"os"
	"path/filepath"
	"sort"
	"strings"
	"sync"
	"time"
)

// Violation is one observed failure of the property.
type Violation struct {
	Key    string `json:"key"`    // classifier key (shape of the failure)
	Replay string `json:"replay"` // directory or file that reproduces it
	Msg    string `json:"msg"`
	Seq    int    `json:"seq"`
}

// File is the on-disk form.
type File struct {
	Test        string         `json:"test"`
	Evaluations int            `json:"evaluations"`
	Labels      map[string]int `json:"labels"`
	Distinct    []string       `json:"distinct"` // hashes of non-trivial descriptors
	Samples     []any          `json:"samples"`
	Violations  []Violation    `json:"violations"`
	Infra       []string       `json:"infra"`
	Excluded    map[string]int `json:"excluded"`
	Passed      bool           `json:"passed"` // set by the test on normal completion
	Notes       []string       `json:"notes"`
	Requested   int            `json:"requested"` // requested number of cases (0 = n/a)
	Completed   int            `json:"completed"` // cases of the main run that completed
}

var (
	mu       sync.Mutex
	cur      = newFile()
	distinct = map[string]bool{}
	seq      int
)

func newFile() *File {
	return &File{Labels: map[string]int{}, Excluded: map[string]int{}}
}

const maxSamples = 6
const maxDistinct = 200000

// Hash gives a short stable digest of a descriptor.
func Hash(s string) string {
	sum := sha256.Sum256([]byte(s))
	return hex.EncodeToString(sum[:6])
}

// Case records one executed case. descriptor is the canonical description
// used for distinctness; nontrivial says whether the case met the property's
// stated non-triviality rule. sample, when non-nil, may be kept as an example.
func Case(descriptor string, nontrivial bool, labels []string, sample any) {
	mu.Lock()
	defer mu.Unlock()
	cur.Evaluations++
	for _, l := range labels {
		cur.Labels[l]++
	}
	if nontrivial {
		cur.Labels["nontrivial"]++
		h := Hash(descriptor)
		if !distinct[h] && len(distinct) < maxDistinct {
			distinct[h] = true
			if sample != nil && len(cur.Samples) < maxSamples {
				cur.Samples = append(cur.Samples, sample)
			}
		}
	} else {
		cur.Labels["trivial"]++
	}
}

// Label bumps a counter without recording a case.
func Label(l string) {
	mu.Lock()
	cur.Labels[l]++
	mu.Unlock()
}

// LabelN adds n to a counter.
func LabelN(l string, n int) {
	mu.Lock()
	cur.Labels[l] += n
	mu.Unlock()
}

// Sample stores an example case regardless of distinctness (bounded).
func Sample(s any) {
	mu.Lock()
	if len(cur.Samples) < maxSamples {
		cur.Samples = append(cur.Samples, s)
	}
	mu.Unlock()
}

// Excluded counts a generated shape that was steered away from because it
// is a listed known finding.
func Excluded(key string) {
	mu.Lock()
	cur.Excluded[key]++
	mu.Unlock()
}

// Note adds a free-text remark to the evidence.
func Note(format string, a ...any) {
	mu.Lock()
	if len(cur.Notes) < 50 {
		cur.Notes = append(cur.Notes, fmt.Sprintf(format, a...))
	}
	mu.Unlock()
}

// Infra records a failure of the machinery (maps to exit 2).
func Infra(format string, a ...any) {
	mu.Lock()
	cur.Infra = append(cur.Infra, fmt.Sprintf(format, a...))
	mu.Unlock()
	Flush()
}

// ReplayRoot is where replay dumps of this process go.
func ReplayRoot() string {
	if d := os.Getenv("VERIF_REPLAY_DIR"); d != "" {
		return d
	}
	return filepath.Join(os.TempDir(), "verif-replays")
}

// Violate dumps a replay directory for a failing case and records it.
// files maps relative names to contents; it returns the directory. The caller
// then fails the test so that the library can shrink; the last dump written
// is the smallest.
func Violate(key, msg string, files map[string]string) string {
	mu.Lock()
	seq++
	n := seq
	mu.Unlock()
	dir := filepath.Join(ReplayRoot(), fmt.Sprintf("%s-%d-%04d", time.Now().Format("150405"), os.Getpid(), n))
	os.MkdirAll(dir, 0o755)
	for name, content := range files {
		p := filepath.Join(dir, name)
		os.MkdirAll(filepath.Dir(p), 0o755)
		os.WriteFile(p, []byte(content), 0o644)
	}
	os.WriteFile(filepath.Join(dir, "VIOLATION.txt"), []byte("key: "+key+"\n\n"+msg+"\n"), 0o644)
	mu.Lock()
	cur.Violations = append(cur.Violations, Violation{Key: key, Replay: dir, Msg: clip(msg, 2000), Seq: n})
	// keep only the last few dumps on disk: shrinking produces many
	if len(cur.Violations) > 40 {
		old := cur.Violations[0]
		cur.Violations = cur.Violations[1:]
		os.RemoveAll(old.Replay)
	}
	mu.Unlock()
	Flush()
	return dir
}

func clip(s string, n int) string {
	if len(s) <= n {
		return s
	}
	return s[:n] + "…"
}

// SetTest names the running test function.
func SetTest(name string) { mu.Lock(); cur.Test = name; mu.Unlock() }

// SetRequested records how many cases the run was asked to execute.
func SetRequested(n int) { mu.Lock(); cur.Requested = n; mu.Unlock() }

// Completed counts a case that ran to the end (used to detect short runs).
func Completed() { mu.Lock(); cur.Completed++; mu.Unlock() }

// Passed marks normal completion.
func Passed() { mu.Lock(); cur.Passed = true; mu.Unlock(); Flush() }

// Flush writes the stats file (atomically).
func Flush() {
	path := os.Getenv("VERIF_STATS")
	if path == "" {
		return
	}
	mu.Lock()
	cur.Distinct = cur.Distinct[:0]
	for h := range distinct {
		cur.Distinct = append(cur.Distinct, h)
	}
	sort.Strings(cur.Distinct)
	data, err := json.Marshal(cur)
	mu.Unlock()
	if err != nil {
		// a sample that cannot be marshalled must not lose the whole file
		mu.Lock()
		cur.Samples = nil
		cur.Notes = append(cur.Notes, "samples dropped: "+err.Error())
		data, _ = json.Marshal(cur)
		mu.Unlock()
	}
	tmp := path + ".tmp"
	if os.WriteFile(tmp, data, 0o644) == nil {
		os.Rename(tmp, path)
	}
}

// Read loads a stats file.
func Read(path string) (*File, error) {
	data, err := os.ReadFile(path)
	if err != nil {
		return nil, err
	}
	f := newFile()
	if err := json.Unmarshal(data, f); err != nil {
		return nil, err
	}
	return f, nil
}

// Desc joins descriptor parts canonically.
func Desc(parts ...string) string { return strings.Join(parts, "|") }

// SortedSet renders a set of strings canonically.
func SortedSet(m map[string]bool) string {
	var ks []string
	for k, v := range m {
		if v {
			ks = append(ks, k)
		}
	}
	sort.Strings(ks)
	return strings.Join(ks, ",")
}
