# Sourced by every command registered in MANIFEST.json (and handy interactively).
export PATH=/root/go/pkg/mod/golang.org/toolchain@v0.0.1-go1.26.2.linux-amd64/bin:$PATH
export GOTOOLCHAIN=local GOFLAGS=-mod=mod GOPROXY=off GOSUMDB=off GONOSUMDB='*' GONOSUMCHECK=1 GOFLAGS=-mod=mod
