package checks

// C12 — name salting: fixed by -seed, otherwise tied to the build inputs.

import (
	"encoding/json"
	"fmt"
	"go/ast"
	"go/parser"
	"go/token"
	"go/types"
	"os"
	"path/filepath"
	"sort"
	"strings"
	"testing"

	"golang.org/x/tools/go/types/objectpath"
	"pgregory.net/rapid"
	"verif/h"
	"verif/progen"
	"verif/rc"
	"verif/stats"
)

type c12Case struct {
	Spec   progen.Spec `json:"spec"`
	Seeded bool        `json:"seeded"`
	Change string      `json:"change"`  // flag-tiny | flag-literals | seed | tag | edit-other | edit-same | modpath | gogarble | repeat
	EditAt int         `json:"edit_at"` // package index edited (edit-*)
}

// setting is one side of the pair.
type c12Setting struct {
	cfg   h.Config
	flags []string
	spec  progen.Spec
	edit  int  // package index whose source gets a comment-only edit, -1 none
	tagOn bool // adds a tag-guarded file to the last package
}

type nameEntry struct {
	pkg      int // package index
	path     string
	name     string
	kind     string // func | type | var | const | method | ifacemethod | field | embedded | importpath
	origName string
}

// c12Names runs `garble map` under a setting and resolves every listed object.
func c12Names(dir string, s c12Setting, tag string) ([]nameEntry, *verdict) {
	prog := progen.Render(s.spec)
	src := filepath.Join(dir, "src-"+tag)
	files := prog.Files
	if s.edit >= 0 {
		// a comment-only edit in one file of the package
		for _, base := range []string{"zq_util.go", "zq_empty.go"} {
			rel := filepath.Join(s.spec.Pkgs[s.edit].Dir, base)
			if content, ok := files[rel]; ok {
				files[rel] = content + "\n// edited: an unrelated comment\n"
				break
			}
		}
	}
	last := len(s.spec.Pkgs) - 1
	files[filepath.Join(s.spec.Pkgs[last].Dir, "zq_tagfile.go")] = "//go:build zqtag\n\npackage " + s.spec.Pkgs[last].Name + "\n\nvar TagOnlyZq = 1\n"
	h.WriteFiles(src, files)
	box := h.NewPlainCaseBox(dir) // garble map only lists and type-checks: no garbled std needed
	flags := s.flags
	if s.tagOn {
		flags = append(flags, "-tags=zqtag")
	}
	mr := box.Garble(s.cfg, src, append(append([]string{"map"}, flags...), "./...")...)
	if !mr.OK() {
		return nil, &verdict{Key: "C12/map-fails", Msg: "garble map fails:\n" + mr.Brief()}
	}
	listed := map[string]mapPkg{}
	if err := json.Unmarshal([]byte(mr.Stdout), &listed); err != nil {
		return nil, violationf("C12/map-output", "garble map output is not JSON: %v", err)
	}
	pkgs := loadTyped(box, src, flags)
	var out []nameEntry
	for _, p := range pkgs {
		idx := -1
		for i := range s.spec.Pkgs {
			if s.spec.ImportPath(i) == p.PkgPath {
				idx = i
			}
		}
		lp, ok := listed[p.PkgPath]
		if idx < 0 || !ok {
			continue
		}
		if p.Name != "main" {
			// package main is always linked as "main"
			out = append(out, nameEntry{pkg: idx, path: "", name: lp.Path, kind: "importpath", origName: p.PkgPath})
		}
		var paths []string
		for path := range lp.Objects {
			paths = append(paths, path)
		}
		sort.Strings(paths)
		for _, path := range paths {
			o, err := objectpath.Object(p.Types, objectpath.Path(path))
			if err != nil {
				continue
			}
			kind := objKind(o)
			if v, ok := o.(*types.Var); ok && v.Embedded() {
				kind = "embedded"
			}
			out = append(out, nameEntry{pkg: idx, path: path, name: lp.Objects[path], kind: kind, origName: o.Name()})
		}
	}
	return out, nil
}

// packageScoped: names salted with the package (everything but struct fields).
func packageScoped(kind string) bool { return kind != "field" }

func c12Run(c c12Case) (v *verdict, labels []string, nontrivial bool) {
	dir := caseDir()
	defer h.RemoveAll(dir)
	base := c12Setting{spec: c.Spec, edit: -1}
	if c.Seeded {
		base.cfg.Seed = fixedSeeds[0]
	}
	other := base
	// expectations per (package, kind): "equal", "differ" or "" (not asserted)
	expect := func(e nameEntry) string { return "" }
	importsEdited := func(pkg int) bool { return false }
	switch c.Change {
	case "repeat":
		expect = func(nameEntry) string { return "equal" }
	case "flag-tiny", "flag-literals":
		if c.Change == "flag-tiny" {
			other.cfg.Tiny = true
		} else {
			other.cfg.Literals = true
		}
		if c.Seeded {
			expect = func(nameEntry) string { return "equal" }
		} else {
			expect = func(nameEntry) string { return "differ" }
		}
	case "seed":
		other.cfg.Seed = fixedSeeds[1]
		expect = func(nameEntry) string { return "differ" }
	case "tag":
		other.tagOn = true
		if c.Seeded {
			expect = func(nameEntry) string { return "equal" }
		}
	case "edit-other", "edit-same":
		other.edit = c.EditAt
		// which packages import the edited one (their action IDs may or may not move)
		importsEdited = func(pkg int) bool {
			for _, f := range c.Spec.Feats {
				if f.User == pkg && f.Prov == c.EditAt && f.User != f.Prov {
					return true
				}
			}
			return pkg == 0 // main imports every package that has use functions
		}
		if c.Seeded {
			expect = func(nameEntry) string { return "equal" }
		} else {
			expect = func(e nameEntry) string {
				switch {
				case e.pkg == c.EditAt && packageScoped(e.kind):
					return "differ"
				case e.pkg == c.EditAt:
					return "equal" // field names do not depend on the package's source
				case !importsEdited(e.pkg):
					return "equal"
				}
				return ""
			}
		}
	case "modpath":
		other.spec.ModPath = c.Spec.ModPath + "/othermod"
		expect = func(e nameEntry) string {
			if !c.Seeded {
				if packageScoped(e.kind) {
					return "differ"
				}
				return ""
			}
			if e.kind == "field" {
				return "equal" // salted with the struct's shape only
			}
			if e.kind == "embedded" {
				return "" // named after a type that may live in another package
			}
			return "differ"
		}
	case "gogarble":
		other.cfg.GOGARBLE = modOnlyPattern
		if c.Seeded {
			expect = func(nameEntry) string { return "equal" }
		} else {
			expect = func(nameEntry) string { return "differ" }
		}
	}
	labels = append(labels, "change:"+c.Change, fmt.Sprintf("seeded:%v", c.Seeded))
	a, va := c12Names(dir, base, "a")
	if va != nil {
		return va, labels, false
	}
	b, vb := c12Names(dir, other, "b")
	if vb != nil {
		return vb, labels, false
	}
	bm := map[string]nameEntry{}
	for _, e := range b {
		bm[fmt.Sprintf("%d|%s", e.pkg, e.path)] = e
	}
	compared := 0
	kinds := map[string]bool{}
	for _, e := range a {
		o, ok := bm[fmt.Sprintf("%d|%s", e.pkg, e.path)]
		if !ok || o.origName != e.origName && e.kind != "importpath" {
			continue
		}
		want := expect(e)
		if want == "" {
			continue
		}
		compared++
		kinds[e.kind] = true
		same := e.name == o.name
		if want == "equal" && !same || want == "differ" && same {
			verb := map[string]string{"equal": "must not change", "differ": "must change"}[want]
			return &verdict{Key: fmt.Sprintf("C12/%s/%s/%s", c.Change, map[bool]string{true: "seeded", false: "unseeded"}[c.Seeded], e.kind),
				Msg: fmt.Sprintf("%s build pair differing only in %q: the obfuscated name of %s %s (package %d, objectpath %q) %s, but is %q in the first build and %q in the second", map[bool]string{true: "seeded", false: "unseeded"}[c.Seeded], c.Change, e.kind, e.origName, e.pkg, e.path, verb, e.name, o.name)}, labels, true
		}
	}
	for k := range kinds {
		labels = append(labels, "kind:"+k)
	}
	sort.Strings(labels)
	stats.LabelN("names-compared", compared)
	return nil, labels, compared >= 10
}

// garbledFuncName finds the garbled spelling of a top-level function by
// pairing the function declarations of an original and a garbled file in order.
func garbledFuncName(origFile, garbledFile, name string) string {
	fset := token.NewFileSet()
	of, err1 := parser.ParseFile(fset, origFile, nil, parser.SkipObjectResolution)
	gf, err2 := parser.ParseFile(fset, garbledFile, nil, parser.SkipObjectResolution)
	if err1 != nil || err2 != nil {
		return ""
	}
	var od, gd []*ast.FuncDecl
	for _, d := range of.Decls {
		if f, ok := d.(*ast.FuncDecl); ok {
			od = append(od, f)
		}
	}
	for _, d := range gf.Decls {
		if f, ok := d.(*ast.FuncDecl); ok {
			gd = append(gd, f)
		}
	}
	for i, f := range od {
		if f.Name.Name == name && f.Recv == nil && i < len(gd) {
			return gd[i].Name.Name
		}
	}
	return ""
}

// c12TestVariant: with -seed, the same identifier declared by a package, by
// its internal test files and by its external test package must not get the
// same obfuscated name in the package and in the external test package
// ("differs ... in another package").
func c12TestVariant(c c12Case) (v *verdict, labels []string, nontrivial bool) {
	dir := caseDir()
	defer h.RemoveAll(dir)
	labels = []string{"change:test-variant", "seeded:true"}
	prog := progen.Render(c.Spec)
	src := filepath.Join(dir, "src")
	h.WriteFiles(src, prog.Files)
	cfg := h.Config{Seed: fixedSeeds[0]}
	box := h.NewCaseBox(dir, cfg, h.LevelTest)
	r := box.Garble(cfg, src, "test", "-count=1", "-v", "./...")
	if strings.Contains(r.Stdout+r.Stderr, "build failed") {
		stats.Note("garble test failed in a C12 test-variant case (judged by C01): %s", h.Clip(r.Stderr, 300))
		return nil, append(labels, "garble-test-failed"), false
	}
	// the tests print the run-time names of their same-named functions: "zqname <marker> <where> <name>"
	names := map[string]map[string]string{}
	for _, l := range strings.Split(r.Stdout, "\n") {
		f := strings.Fields(l)
		if len(f) == 4 && f[0] == "zqname" {
			if names[f[1]] == nil {
				names[f[1]] = map[string]string{}
			}
			names[f[1]][f[2]] = f[3]
		}
	}
	compared := 0
	for mk, n := range names {
		for _, pair := range [][2]string{{"pkg", "ext"}, {"int", "extT"}} {
			a, b := n[pair[0]], n[pair[1]]
			if a == "" || b == "" {
				continue
			}
			compared++
			if a == b {
				return &verdict{Key: "C12/test-variant/seeded/func", Msg: fmt.Sprintf("with -seed, a function of the same name is declared both in a package (%s) and in its external test package (%s); at run time both are called %q although they live in different packages (marker %s)\n%s", pair[0], pair[1], a, mk, h.Clip(r.Stdout, 1500))}, labels, true
			}
		}
	}
	return nil, labels, compared > 0
}

func TestC12(t *testing.T) {
	rc.Check(t, func(t *rapid.T) {
		var c c12Case
		c.Spec = progen.Draw(t, progen.Options{MinPkgs: 2, MaxPkgs: 4, MinFeats: 3, MaxFeats: 7, NoExit: true})
		c.Spec.Args = nil
		c.Seeded = rapid.Bool().Draw(t, "seeded")
		changes := []string{"repeat", "flag-tiny", "flag-literals", "tag", "edit-other", "edit-same", "modpath", "gogarble"}
		if c.Seeded {
			changes = append(changes, "seed", "seed")
		}
		c.Change = rapid.SampledFrom(changes).Draw(t, "change")
		c.EditAt = rapid.IntRange(0, len(c.Spec.Pkgs)-1).Draw(t, "editat")
		if c.Change == "edit-other" && c.EditAt == 0 {
			c.EditAt = len(c.Spec.Pkgs) - 1
		}
		v, labels, nt := c12Run(c)
		stats.Case(stats.Desc(c.Change, fmt.Sprint(c.Seeded), strings.Join(labels, ",")), nt, labels,
			map[string]any{"change": c.Change, "seeded": c.Seeded, "packages": len(c.Spec.Pkgs), "edited_package": c.EditAt})
		if v != nil {
			dir := dumpViolation(v, "TestC12Replay", c, nil)
			t.Fatalf("%s: %s\nreplay: %s", v.Key, h.Clip(v.Msg, 3000), dir)
		}
	})
}

// TestC12TestVariant: `garble -seed test` on programs whose packages have
// internal and external test packages declaring same-named identifiers.
func TestC12TestVariant(t *testing.T) {
	rc.Check(t, func(t *rapid.T) {
		var c c12Case
		c.Change, c.Seeded = "test-variant", true
		c.Spec = progen.Draw(t, progen.Options{Kinds: []string{"tests", "tests", "struct", "closure"}, MinPkgs: 2, MaxPkgs: 3, MinFeats: 2, MaxFeats: 4, NoExit: true})
		c.Spec.Args = nil
		hasTests := false
		for _, f := range c.Spec.Feats {
			hasTests = hasTests || f.Kind == "tests"
		}
		if !hasTests {
			c.Spec.Feats[0].Kind = "tests"
			if c.Spec.Feats[0].Prov == 0 {
				c.Spec.Feats[0].Prov, c.Spec.Feats[0].User = 1, 0
			}
		}
		v, labels, nt := c12TestVariant(c)
		stats.Case(stats.Desc("test-variant", fmt.Sprint(len(c.Spec.Feats)), fmt.Sprint(len(c.Spec.Pkgs))), nt, labels, map[string]any{"change": "test-variant", "seeded": true, "packages": len(c.Spec.Pkgs)})
		if v != nil {
			dir := dumpViolation(v, "TestC12Replay", c, nil)
			t.Fatalf("%s: %s\nreplay: %s", v.Key, h.Clip(v.Msg, 3000), dir)
		}
	})
}

func TestC12Replay(t *testing.T) {
	rc.Fixed(t, func() {
		var c c12Case
		loadReplay(&c)
		if c.Change == "test-variant" {
			v, labels, nt := c12TestVariant(c)
			stats.Case("replay", nt, labels, nil)
			if v != nil {
				stats.Violate(v.Key, v.Msg, nil)
				t.Errorf("%s: %s", v.Key, v.Msg)
			}
			return
		}
		v, labels, nt := c12Run(c)
		stats.Case("replay", nt, labels, nil)
		if v != nil {
			stats.Violate(v.Key, v.Msg, nil)
			t.Errorf("%s: %s", v.Key, v.Msg)
		}
	})
}

var _ = os.Getenv
