package checks

// C11 — control-flow obfuscation preserves function behaviour.

import (
	"fmt"
	"os"
	"path/filepath"
	"strings"
	"testing"
	"time"

	"pgregory.net/rapid"
	"verif/h"
	"verif/progen"
	"verif/rc"
	"verif/stats"
)

type c11Case struct {
	Prog progen.BodyProgram `json:"prog"`
	Seed int                `json:"seed_idx"` // -1: unseeded (action-ID derived), else index into fixedSeeds
}

// Known-finding shapes the generator can be told to avoid.
var c11KnownShapes = map[string]string{
	"C11/range-string-nonascii": "range-string-nonascii",
	"C11/defer-named-result":    "defer-named-result",
	"C11/phi-swap":              "phi-swap",
	"C11/trash-with-splits":     "trash-with-splits",
}

func c11Avoid() map[string]bool {
	avoid := map[string]bool{}
	excl := os.Getenv("VERIF_EXCLUDE")
	for key, shape := range c11KnownShapes {
		if strings.Contains(excl, key) {
			avoid[shape] = true
		}
	}
	return avoid
}

func (c c11Case) cfg() h.Config {
	cfg := h.Config{ControlFlow: true}
	if c.Seed >= 0 {
		cfg.Seed = fixedSeeds[c.Seed%len(fixedSeeds)]
	}
	return cfg
}

type c11Outcome struct {
	v        *verdict
	labels   []string
	judged   []int // indices of functions whose obfuscated build succeeded and were compared
	rejected []int
}

// c11Build builds the program with garble; only >= 0 marks a single function.
func c11Build(c c11Case, box *h.Box, dir string, only int) (ok bool, res h.Result, out map[string]string, timedOut bool) {
	src := filepath.Join(dir, fmt.Sprintf("src%d", only+1))
	h.WriteFiles(src, progen.RenderBody(c.Prog, only))
	bin := filepath.Join(dir, fmt.Sprintf("garbled%d.bin", only+1))
	res = box.Garble(c.cfg(), src, "build", "-o", bin, ".")
	if !res.OK() {
		if _, err := os.Stat(bin); err == nil {
			res.Stderr += "\n(an output binary exists although the build failed)"
		}
		return false, res, nil, false
	}
	run := h.Run(h.Cmd{Dir: src, Env: box.Env(h.Config{}, "GOTRACEBACK=none"), Args: []string{bin}, Timeout: 20 * time.Second})
	if run.TimedOut {
		// confirm once with a doubled limit before calling it a hang
		run = h.Run(h.Cmd{Dir: src, Env: box.Env(h.Config{}, "GOTRACEBACK=none"), Args: []string{bin}, Timeout: 40 * time.Second})
	}
	return true, run, parseRuns(run.Stdout), run.TimedOut
}

// parseRuns maps "fzqN#k" to the rest of its output line.
func parseRuns(stdout string) map[string]string {
	m := map[string]string{}
	for _, l := range strings.Split(stdout, "\n") {
		if name, rest, ok := strings.Cut(l, " "); ok && strings.HasPrefix(name, "fzq") {
			m[name] = rest
		}
	}
	return m
}

func c11Run(c c11Case) c11Outcome {
	dir := caseDir()
	defer h.RemoveAll(dir)
	var o c11Outcome
	// reference: the regular build of the same source (directives are comments to it)
	src := filepath.Join(dir, "plain")
	h.WriteFiles(src, progen.RenderBody(c.Prog, -1))
	plain := sharedPlain()
	pbin := filepath.Join(dir, "plain.bin")
	if r := plain.Go(src, nil, "build", "-o", pbin, "."); !r.OK() {
		rc.Abort("generated C11 program does not build with the regular toolchain:\n%s\n%s", r.Brief(), progen.RenderBody(c.Prog, -1)["main.go"])
	}
	start := time.Now()
	pr := h.Run(h.Cmd{Dir: src, Env: plain.Env(h.Config{}, "GOTRACEBACK=none"), Args: []string{pbin}, Timeout: 20 * time.Second})
	if pr.TimedOut || pr.Exit != 0 {
		rc.Abort("generated C11 program misbehaves under the regular toolchain (exit %d, %.1fs): %s", pr.Exit, time.Since(start).Seconds(), pr.Brief())
	}
	want := parseRuns(pr.Stdout)

	compare := func(got map[string]string, res h.Result, timedOut bool, idxs []int) *verdict {
		for _, fi := range idxs {
			f := c.Prog.Funcs[fi]
			for ci := range f.Calls {
				name := fmt.Sprintf("%s#%d", f.Name, ci)
				if got[name] != want[name] {
					key := "C11/behaviour-differs"
					if timedOut {
						key = "C11/obfuscated-hangs"
					}
					for fk, shape := range c11KnownShapes {
						if f.Shapes[shape] || (shape == "range-string-nonascii" && f.Shapes["range-string"]) || (shape == "phi-swap" && f.Shapes["swap"]) || (shape == "trash-with-splits" && f.Shapes["param:trash"] && f.Shapes["param:splits"]) {
							key = fk
						}
					}
					return &verdict{Key: key, Msg: fmt.Sprintf("function %s (//garble:controlflow %s; shapes %s) behaves differently after control-flow obfuscation:\n  call %s%s(%s, %s, %s, %s)\n  regular:    %s\n  obfuscated: %s\n  (obfuscated run: exit %d, timed out %v)\n--- function\n%s",
						f.Name, f.Directive, strings.Join(sortedKeys(f.Shapes), ","), f.Calls[ci][4], f.Name, f.Calls[ci][0], f.Calls[ci][1], f.Calls[ci][2], f.Calls[ci][3], want[name], got[name], res.Exit, timedOut, f.Body)}
				}
			}
		}
		return nil
	}

	all := make([]int, len(c.Prog.Funcs))
	for i := range all {
		all[i] = i
	}
	box := h.NewCaseBox(dir, c.cfg(), h.LevelStd)
	ok, res, got, timedOut := c11Build(c, box, dir, -1)
	if ok {
		o.judged = all
		o.v = compare(got, res, timedOut, all)
		return o
	}
	// The build was rejected: judge the functions one at a time.
	o.labels = append(o.labels, "program-rejected")
	stats.Note("rejected program: %s", h.Clip(firstLines(res.Stderr, 6), 500))
	for fi := range c.Prog.Funcs {
		ok, res, got, timedOut := c11Build(c, box, dir, fi)
		if !ok {
			o.rejected = append(o.rejected, fi)
			o.labels = append(o.labels, "rejected:"+rejectClass(res.Stderr))
			continue
		}
		o.judged = append(o.judged, fi)
		if v := compare(got, res, timedOut, []int{fi}); v != nil {
			o.v = v
			return o
		}
	}
	return o
}

func firstLines(s string, n int) string {
	ls := strings.Split(s, "\n")
	if len(ls) > n {
		ls = ls[:n]
	}
	return strings.Join(ls, " / ")
}

func rejectClass(stderr string) string {
	switch {
	case strings.Contains(stderr, "index out of range"):
		return "panic-index"
	case strings.Contains(stderr, "invalid argument to Intn"):
		return "panic-intn"
	case strings.Contains(stderr, "panic:"):
		return "panic-other"
	case strings.Contains(stderr, "declared and not used"), strings.Contains(stderr, "undefined"):
		return "generated-code-does-not-compile"
	}
	return "other"
}

func TestC11(t *testing.T) {
	avoid := c11Avoid()
	rc.Check(t, func(t *rapid.T) {
		var c c11Case
		c.Prog = progen.DrawBodyProgram(t, progen.BodyOptions{MinFuncs: 4, MaxFuncs: 8, Avoid: avoid})
		c.Seed = rapid.IntRange(-1, 0).Draw(t, "seed")
		o := c11Run(c)
		for fi, f := range c.Prog.Funcs {
			judged := false
			for _, j := range o.judged {
				if j == fi {
					judged = true
				}
			}
			var labels []string
			for _, s := range sortedKeys(f.Shapes) {
				labels = append(labels, "shape:"+s)
				if strings.HasPrefix(s, "excluded:") {
					stats.Excluded("C11/" + strings.TrimPrefix(s, "excluded:"))
				}
			}
			if !judged {
				labels = append(labels, "not-judged(rejected)")
			}
			if fi == 0 {
				labels = append(labels, o.labels...)
			}
			// non-trivial: obfuscated build succeeded and the body has control flow to flatten
			hasFlow := f.Shapes["if"] || f.Shapes["for3"] || f.Shapes["forcond"] || f.Shapes["switch"] || f.Shapes["labels"] || strings.Contains(strings.Join(sortedKeys(f.Shapes), ","), "range-")
			var sample any
			if fi == 0 {
				sample = map[string]any{"function": f.Name, "directive": f.Directive, "shapes": sortedKeys(f.Shapes), "calls": len(f.Calls), "body": h.Clip(f.Body, 700)}
			}
			stats.Case(stats.Desc(strings.Join(sortedKeys(f.Shapes), ","), f.Kind), judged && hasFlow, labels, sample)
		}
		if o.v != nil {
			dir := dumpViolation(o.v, "TestC11Replay", c, nil)
			os.WriteFile(filepath.Join(dir, "main.go"), []byte(progen.RenderBody(c.Prog, -1)["main.go"]), 0o644)
			t.Fatalf("%s: %s\nreplay: %s", o.v.Key, h.Clip(o.v.Msg, 3000), dir)
		}
	})
}

// Frozen reproductions of the known findings: hand-minimised functions.
func c11Frozen(key string) c11Case {
	mk := func(directive, body string, calls [][]string, shapes ...string) c11Case {
		sh := map[string]bool{}
		for _, s := range shapes {
			sh[s] = true
		}
		return c11Case{Seed: 0, Prog: progen.BodyProgram{Funcs: []progen.FuncSpec{{Name: "fzq0", Directive: directive, Body: body, Shapes: sh, Calls: calls, Kind: "func"}}}}
	}
	switch key {
	case "C11/range-string-nonascii":
		return mk("flatten_passes=1", "func fzq0(a, b int, s string, xs []int) (int, string) {\n\tfor i, r := range s {\n\t\ttr(\"rs\", i*1000+int(r))\n\t}\n\treturn a, s\n}\n",
			[][]string{{"1", "2", `"héllo"`, "nil", ""}}, "range-string")
	case "C11/defer-named-result":
		return mk("flatten_passes=1", "func fzq0(a, b int, s string, xs []int) (r int, rs string) {\n\tdefer func() {\n\t\tif e := recover(); e != nil {\n\t\t\tr, rs = -1, \"recovered\"\n\t\t}\n\t}()\n\tif a > 0 {\n\t\tpanic(\"boom\")\n\t}\n\treturn a, s\n}\n",
			[][]string{{"1", "2", `"x"`, "nil", ""}, {"0", "2", `"x"`, "nil", ""}}, "defer-named-result")
	case "C11/phi-swap":
		return mk("flatten_passes=1", "func fzq0(a, b int, s string, xs []int) (int, string) {\n\tfor i := 0; i < 3; i++ {\n\t\ta, b = b, a\n\t}\n\treturn a*10 + b, s\n}\n",
			[][]string{{"1", "2", `"x"`, "nil", ""}}, "swap")
	case "C11/trash-with-splits":
		return mk("flatten_passes=1 block_splits=max trash_blocks=8", "func fzq0(a, b int, s string, xs []int) (int, string) {\n\tn := 0\n\tfor i := 0; i < a; i++ {\n\t\tn += i * b\n\t\ttr(\"n\", n)\n\t}\n\tfor n > 3 {\n\t\tn -= 3\n\t}\n\treturn n, s + itoa(n)\n}\n",
			[][]string{{"4", "3", `"x"`, "nil", ""}, {"7", "2", `"x"`, "nil", ""}}, "param:trash", "param:splits")
	}
	rc.Abort("unknown finding %s", key)
	return c11Case{}
}

func TestC11Replay(t *testing.T) {
	rc.Fixed(t, func() {
		var c c11Case
		key := os.Getenv("VERIF_FINDING")
		if key != "" {
			c = c11Frozen(key)
		} else {
			loadReplay(&c)
		}
		o := c11Run(c)
		stats.Case("replay", len(o.judged) > 0, o.labels, nil)
		if o.v != nil {
			if key != "" {
				o.v.Key = key
			}
			stats.Violate(o.v.Key, o.v.Msg, nil)
			t.Errorf("%s: %s", o.v.Key, o.v.Msg)
		}
	})
}
