package checks

// C08, second unit — reflection across the GOGARBLE boundary.
//
// The first unit builds every program with GOGARBLE=* (default). This one
// draws programs of three packages, one of which stays outside GOGARBLE:
//
//	zqpart/cmd/app   package main (always selected: the name table lives there)
//	zqpart/secret    declares the payload struct types
//	zqpart/api       declares wrapper types around the payloads and a describer
//
// For each of 2-6 paths a payload type of `secret` reaches reflection only
// inside a wrapper declared in `api` (by value, pointer, slice, map value,
// array, embedding, nested wrapper, generic wrapper, or directly as control),
// entering through reflect.TypeOf or encoding/json called in main, in api or
// in secret. Oracle: the describer's output equals the regular build's.

import (
	"fmt"
	"os"
	"path/filepath"
	"strings"
	"testing"

	"pgregory.net/rapid"
	"verif/h"
	"verif/rc"
	"verif/stats"
)

var c08pShapes = []string{"direct", "value", "pointer", "slice", "mapvalue", "array", "embedded", "nestedwrap", "genericwrap", "ptrslice", "structofstruct"}
var c08pEntries = []string{"typeof-main", "typeof-api", "typeof-secret", "json-main", "json-api", "unjson-api", "fieldbyname-main", "valueof-api"}

// GOGARBLE lists: which of the three packages are selected.
var c08pScopes = map[string]string{
	"api-outside":    "zqpart/secret,zqpart/cmd",
	"secret-outside": "zqpart/api,zqpart/cmd",
	"all":            "",
}

type c08pPath struct {
	Shape string `json:"shape"`
	Entry string `json:"entry"`
	Inner bool   `json:"inner"` // payload has a field of a second payload type
}

type c08pCase struct {
	Scope  string     `json:"scope"`
	Cfg    string     `json:"cfg"`
	Paths  []c08pPath `json:"paths"`
	Builds int        `json:"builds"`
	// HelperFirst: the describer's name sorts before (a...) or after (z...) its callers
	HelperFirst bool `json:"helper_first"`
}

func c08pRender(c c08pCase) map[string]string {
	var sec, api, use strings.Builder
	pre := "Z"
	if c.HelperFirst {
		pre = "A"
	}
	desc := pre + "desczq"
	sec.WriteString("package secret\n\nimport (\n\t\"reflect\"\n\t\"strings\"\n)\n\nvar _ = strings.ToUpper\n\n")
	fmt.Fprintf(&sec, `// NamesOf lists type and field names through reflection, from inside the payload package.
func NamesOf(x any) string { return walk(reflect.TypeOf(x), 0) }

func walk(t reflect.Type, depth int) string {
	if depth > 5 {
		return "..."
	}
	switch t.Kind() {
	case reflect.Pointer, reflect.Slice, reflect.Array, reflect.Map:
		return t.Kind().String() + "<" + walk(t.Elem(), depth+1) + ">"
	case reflect.Struct:
		name := t.Name()
		if i := strings.IndexByte(name, '['); i >= 0 {
			name = name[:i]
		}
		s := name + "{"
		for i := 0; i < t.NumField(); i++ {
			s += t.Field(i).Name + ":" + walk(t.Field(i).Type, depth+1) + ";"
		}
		return s + "}"
	}
	return t.Name()
}
`)
	api.WriteString("package api\n\nimport (\n\t\"encoding/json\"\n\t\"reflect\"\n\t\"strings\"\n\n\t\"zqpart/secret\"\n)\n\nvar _ secret.Keep\nvar _ = strings.ToUpper\n\n")
	sec.WriteString("type Keep struct{}\n\n")
	fmt.Fprintf(&api, `// %[1]s lists type and field names through reflection, from the wrapper package.
func %[1]s(x any) string { return walk(reflect.TypeOf(x), 0) }

// %[1]sV does the same starting from a reflect.Value.
func %[1]sV(x any) string { return walk(reflect.ValueOf(x).Type(), 0) }

func walk(t reflect.Type, depth int) string {
	if depth > 5 {
		return "..."
	}
	switch t.Kind() {
	case reflect.Pointer, reflect.Slice, reflect.Array, reflect.Map:
		return t.Kind().String() + "<" + walk(t.Elem(), depth+1) + ">"
	case reflect.Struct:
		name := t.Name()
		if i := strings.IndexByte(name, '['); i >= 0 {
			name = name[:i]
		}
		s := name + "{"
		for i := 0; i < t.NumField(); i++ {
			s += t.Field(i).Name + ":" + walk(t.Field(i).Type, depth+1) + ";"
		}
		return s + "}"
	}
	return t.Name()
}

func ToJSON(x any) string {
	b, err := json.Marshal(x)
	if err != nil {
		return "err:" + err.Error()
	}
	return string(b)
}

func FromJSON(data string, into any) string {
	if err := json.Unmarshal([]byte(data), into); err != nil {
		return "err:" + err.Error()
	}
	b, _ := json.Marshal(into)
	return string(b)
}

type Box[T any] struct {
	Held  T
	Extra []T
}
`, desc)
	use.WriteString("package main\n\nimport (\n\t\"encoding/json\"\n\t\"fmt\"\n\t\"reflect\"\n\t\"strings\"\n\n\t\"zqpart/api\"\n\t\"zqpart/secret\"\n)\n\nvar _ = json.Marshal\nvar _ = reflect.TypeOf\nvar _ = strings.ToUpper\nvar _ api.Box[int]\nvar _ secret.Keep\n\n")
	use.WriteString(`func mainWalk(t reflect.Type, depth int) string {
	if depth > 5 {
		return "..."
	}
	switch t.Kind() {
	case reflect.Pointer, reflect.Slice, reflect.Array, reflect.Map:
		return t.Kind().String() + "<" + mainWalk(t.Elem(), depth+1) + ">"
	case reflect.Struct:
		name := t.Name()
		if i := strings.IndexByte(name, '['); i >= 0 {
			name = name[:i]
		}
		s := name + "{"
		for i := 0; i < t.NumField(); i++ {
			s += t.Field(i).Name + ":" + mainWalk(t.Field(i).Type, depth+1) + ";"
		}
		return s + "}"
	}
	return t.Name()
}

func main() {
`)
	for i, p := range c.Paths {
		pay := fmt.Sprintf("Payzq%d", i)
		inner := fmt.Sprintf("Innzq%d", i)
		fa, fb, fc := fmt.Sprintf("Fazq%d", i), fmt.Sprintf("Fbzq%d", i), fmt.Sprintf("fczq%d", i)
		extra := ""
		if p.Inner {
			fmt.Fprintf(&sec, "type %s struct {\n\tDeepzq%d string\n\tHidzq%d []int\n}\n\n", inner, i, i)
			extra = fmt.Sprintf("\tInzq%d %s\n\tPinzq%d *%s\n", i, inner, i, inner)
		}
		fmt.Fprintf(&sec, "type %s struct {\n\t%s string\n\t%s int\n\t%s bool\n%s}\n\n", pay, fa, fb, fc, extra)
		val := fmt.Sprintf("secret.%s{%s: \"v%d\", %s: %d}", pay, fa, i, fb, i+1)
		wrap := fmt.Sprintf("Wrapzq%d", i)
		var expr string // the value handed to reflection
		switch p.Shape {
		case "direct":
			expr = val
		case "value":
			fmt.Fprintf(&api, "type %s struct {\n\tLabel string\n\tBody  secret.%s\n}\n\n", wrap, pay)
			expr = fmt.Sprintf("api.%s{Label: \"l\", Body: %s}", wrap, val)
		case "pointer":
			fmt.Fprintf(&api, "type %s struct {\n\tLabel string\n\tBody  *secret.%s\n}\n\n", wrap, pay)
			expr = fmt.Sprintf("api.%s{Label: \"l\", Body: &%s}", wrap, val)
		case "slice":
			fmt.Fprintf(&api, "type %s struct {\n\tItems []secret.%s\n}\n\n", wrap, pay)
			expr = fmt.Sprintf("api.%s{Items: []secret.%s{%s}}", wrap, pay, val[strings.Index(val, "{"):])
		case "ptrslice":
			fmt.Fprintf(&api, "type %s struct {\n\tItems []*secret.%s\n}\n\n", wrap, pay)
			expr = fmt.Sprintf("&api.%s{Items: []*secret.%s{%s}}", wrap, pay, val[strings.Index(val, "{"):])
		case "mapvalue":
			fmt.Fprintf(&api, "type %s struct {\n\tByKey map[string]secret.%s\n}\n\n", wrap, pay)
			expr = fmt.Sprintf("api.%s{ByKey: map[string]secret.%s{\"k\": %s}}", wrap, pay, val[strings.Index(val, "{"):])
		case "array":
			fmt.Fprintf(&api, "type %s struct {\n\tPair [2]secret.%s\n}\n\n", wrap, pay)
			expr = fmt.Sprintf("api.%s{Pair: [2]secret.%s{%s}}", wrap, pay, val[strings.Index(val, "{"):])
		case "embedded":
			fmt.Fprintf(&api, "type %s struct {\n\tsecret.%s\n\tTail int\n}\n\n", wrap, pay)
			expr = fmt.Sprintf("api.%s{%s: %s, Tail: 3}", wrap, pay, val)
		case "nestedwrap":
			fmt.Fprintf(&api, "type In%s struct {\n\tCore secret.%s\n}\n\ntype %s struct {\n\tMid  In%s\n\tMids []In%s\n}\n\n", wrap, pay, wrap, wrap, wrap)
			expr = fmt.Sprintf("api.%s{Mid: api.In%s{Core: %s}}", wrap, wrap, val)
		case "structofstruct":
			fmt.Fprintf(&api, "type %s struct {\n\tAnon struct {\n\t\tDeep secret.%s\n\t}\n}\n\n", wrap, pay)
			expr = fmt.Sprintf("api.%s{}", wrap)
		case "genericwrap":
			expr = fmt.Sprintf("api.Box[secret.%s]{Held: %s}", pay, val)
		}
		line := func(e string) { fmt.Fprintf(&use, "\tfmt.Println(\"path %d %s %s \" + %s)\n", i, p.Shape, p.Entry, e) }
		switch p.Entry {
		case "typeof-main":
			line(fmt.Sprintf("mainWalk(reflect.TypeOf(%s), 0)", expr))
		case "typeof-api":
			line(fmt.Sprintf("api.%s(%s)", desc, expr))
		case "valueof-api":
			line(fmt.Sprintf("api.%sV(%s)", desc, expr))
		case "typeof-secret":
			line(fmt.Sprintf("secret.NamesOf(%s)", expr))
		case "json-main":
			fmt.Fprintf(&use, "\tjb%d, _ := json.Marshal(%s)\n", i, expr)
			line(fmt.Sprintf("string(jb%d)", i))
		case "json-api":
			line(fmt.Sprintf("api.ToJSON(%s)", expr))
		case "unjson-api":
			fmt.Fprintf(&use, "\tju%d := %s\n", i, expr)
			amp := "&"
			if strings.HasPrefix(expr, "&") {
				amp = ""
			}
			// keys for every shape: only those that exist are used by encoding/json
			line(fmt.Sprintf("api.FromJSON(`{\"%s\":\"in\",\"%s\":7,\"Body\":{\"%s\":\"b\"},\"Held\":{\"%s\":9},\"Items\":[{\"%s\":\"i\"}],\"Mid\":{\"Core\":{\"%s\":4}}}`, %sju%d)", fa, fb, fa, fb, fa, fb, amp, i))
		case "fieldbyname-main":
			fmt.Fprintf(&use, "\tfor _, n := range []string{%q, %q, \"Body\", \"Held\", \"Items\", %q} {\n\t\tt := reflect.TypeOf(%s)\n\t\tfor t.Kind() == reflect.Pointer {\n\t\t\tt = t.Elem()\n\t\t}\n\t\tif f, ok := t.FieldByName(n); ok {\n", fa, fb, pay, expr)
			line("f.Name + \" \" + mainWalk(f.Type, 0)")
			use.WriteString("\t\t}\n\t}\n")
		}
	}
	use.WriteString("}\n")
	return map[string]string{
		"go.mod":          "module zqpart\n\ngo 1.26\n",
		"cmd/app/main.go": use.String(),
		"secret/s.go":     sec.String(),
		"api/a.go":        api.String(),
	}
}

func c08pConfig(c c08pCase) h.Config {
	cfg := configByName(c.Cfg, 0)
	cfg.GOGARBLE = c08pScopes[c.Scope]
	return cfg
}

func c08pRun(c c08pCase) (v *verdict, files map[string]string) {
	dir := caseDir()
	defer h.RemoveAll(dir)
	files = c08pRender(c)
	src := filepath.Join(dir, "src")
	h.WriteFiles(src, files)
	cfg := c08pConfig(c)
	plain := sharedPlain()
	pbin := filepath.Join(dir, "plain.bin")
	if r := plain.Go(src, nil, "build", "-o", pbin, "./cmd/app"); !r.OK() {
		rc.Abort("generated program does not build: %s", r.Brief())
	}
	want := runProg(plain, src, pbin, nil)
	if want.Exit != 0 {
		rc.Abort("generated program fails: %s", want.Brief())
	}
	for b := 0; b < c.Builds; b++ {
		bdir := filepath.Join(dir, fmt.Sprintf("b%d", b))
		os.MkdirAll(bdir, 0o755)
		box := h.NewCaseBox(bdir, cfg, h.LevelStd)
		gbin := filepath.Join(bdir, "garbled.bin")
		g := box.Garble(cfg, src, "build", "-o", gbin, "./cmd/app")
		if !g.OK() {
			return &verdict{Key: "C08/partial/build-fails/" + failureClass(g.Stderr), Msg: fmt.Sprintf("garble %s build fails on a reflecting program (scope %s):\n%s", cfg.Key(), c.Scope, g.Brief())}, files
		}
		got := runProg(box, src, gbin, nil)
		h.RemoveAll(box.Root)
		if got.Stdout != want.Stdout || got.Exit != want.Exit {
			wl, gl := strings.Split(want.Stdout, "\n"), strings.Split(got.Stdout, "\n")
			for i := range wl {
				if i >= len(gl) || gl[i] != wl[i] {
					g := "<missing>"
					if i < len(gl) {
						g = gl[i]
					}
					shape, entry := "?", "?"
					if f := strings.Fields(wl[i]); len(f) > 3 && f[0] == "path" {
						shape, entry = f[2], f[3]
					}
					key := fmt.Sprintf("C08/partial/names-lost/%s/%s/%s", c.Scope, shape, entry)
					if shape == "genericwrap" {
						key = "C08/names-lost/generic" // the listed finding of the first unit: a type argument of a generic struct
					}
					return &verdict{Key: key, Msg: fmt.Sprintf("garble %s, build %d of %d: reflection-driven output differs from the regular build\n  regular: %s\n  garbled: %s", cfg.Key(), b+1, c.Builds, h.Clip(wl[i], 700), h.Clip(g, 700))}, files
				}
			}
			return violationf("C08/partial/output-differs", "output differs (exit %d vs %d)\n%s", want.Exit, got.Exit, h.Clip(got.Stderr, 500)), files
		}
	}
	return nil, files
}

func c08pDump(v *verdict, c c08pCase, files map[string]string) string {
	v.Files = map[string]string{}
	for n, content := range files {
		v.Files["module/"+n] = content
	}
	return dumpViolation(v, "TestC08PartialReplay", c, nil)
}

// c08pExcludedKey reports the listed finding a case would run into ("" = none).
func c08pExcludedKey(c c08pCase) string {
	excl := os.Getenv("VERIF_EXCLUDE")
	for _, p := range c.Paths {
		k := fmt.Sprintf("C08/partial/names-lost/%s/%s/%s", c.Scope, p.Shape, p.Entry)
		for _, e := range strings.Split(excl, ",") {
			e = strings.TrimSpace(e)
			if e == "" || !strings.HasPrefix(e, "C08/partial/") {
				continue
			}
			// a listed key may end in "*" segments: C08/partial/names-lost/<scope>/<shape>/*
			if matchKey(e, k) {
				return e
			}
		}
	}
	return ""
}

func matchKey(pattern, key string) bool {
	ps, ks := strings.Split(pattern, "/"), strings.Split(key, "/")
	if len(ps) != len(ks) {
		return false
	}
	for i := range ps {
		if ps[i] != "*" && ps[i] != ks[i] {
			return false
		}
	}
	return true
}

func TestC08Partial(t *testing.T) {
	rc.Check(t, func(t *rapid.T) {
		var c c08pCase
		c.Scope = rapid.SampledFrom([]string{"api-outside", "api-outside", "api-outside", "secret-outside", "all"}).Draw(t, "scope")
		c.Cfg = rapid.SampledFrom([]string{"default", "default", "literals"}).Draw(t, "cfg")
		if c.Scope != "api-outside" {
			c.Cfg = "default"
		}
		n := rapid.IntRange(2, 6).Draw(t, "paths")
		for i := 0; i < n; i++ {
			c.Paths = append(c.Paths, c08pPath{
				Shape: rapid.SampledFrom(c08pShapes).Draw(t, "shape"),
				Entry: rapid.SampledFrom(c08pEntries).Draw(t, "entry"),
				Inner: rapid.Bool().Draw(t, "inner"),
			})
		}
		c.HelperFirst = rapid.Bool().Draw(t, "helperfirst")
		c.Builds = rc.Pick(1, 3)
		if strings.Contains(os.Getenv("VERIF_EXCLUDE"), "C08/names-lost/generic") {
			// listed finding: the shape is taken out of the case, the rest of the case is kept
			for i := range c.Paths {
				if c.Paths[i].Shape == "genericwrap" {
					stats.Excluded("C08/names-lost/generic")
					c.Paths[i].Shape = "nestedwrap"
				}
			}
		}
		if k := c08pExcludedKey(c); k != "" {
			stats.Excluded(k)
			return
		}
		v, files := c08pRun(c)
		for i, p := range c.Paths {
			var ls []string
			if i == 0 {
				ls = []string{"scope:" + c.Scope, "cfg:" + c.Cfg}
			}
			stats.Case(stats.Desc(c.Scope, p.Shape, p.Entry), c.Scope != "all" && p.Shape != "direct", append(ls, "shape:"+p.Shape, "entry:"+p.Entry), nil)
		}
		stats.Sample(map[string]any{"scope": c.Scope, "gogarble": c08pScopes[c.Scope], "cfg": c.Cfg, "paths": c.Paths})
		if v != nil {
			dir := c08pDump(v, c, files)
			t.Fatalf("%s: %s\nreplay: %s", v.Key, h.Clip(v.Msg, 3000), dir)
		}
	})
}

func TestC08PartialReplay(t *testing.T) {
	rc.Fixed(t, func() {
		var c c08pCase
		loadReplay(&c)
		if c.Builds < 3 {
			c.Builds = 3
		}
		v, _ := c08pRun(c)
		stats.Case("replay", true, []string{"scope:" + c.Scope}, nil)
		if v != nil {
			stats.Violate(v.Key, v.Msg, nil)
			t.Errorf("%s: %s", v.Key, v.Msg)
		}
	})
}
