package checks

// C07 — missing or damaged cache entries are recomputed, never trusted.

import (
	"fmt"
	"os"
	"path/filepath"
	"sort"
	"strings"
	"testing"

	"pgregory.net/rapid"
	"verif/h"
	"verif/rc"
	"verif/stats"
)

type c07Fault struct {
	Area string `json:"area"` // garble-build | gocache-new | tool | dir-garble-build | dir-tool | dir-garble-cache
	Kind string `json:"kind"` // delete | empty | half | onebyte
	Pick []int  `json:"pick"` // indices (mod number of entries) of the entries hit
}

type c07Case struct {
	Names  [3]string  `json:"names"` // drawn identifiers
	Faults []c07Fault `json:"faults"`
	Edit   string     `json:"edit"` // none | main-comment | main-literal | mid-literal
	Cfg    string     `json:"cfg"`  // default | literals | seed
}

// c07Module: reflection reaches main's and mid's types through a leaf package
// that does not import reflect itself (it wraps encoding/json), so the
// dependants need the leaf's cached reflection facts.
func c07Module(c c07Case, edited bool) map[string]string {
	n := c.Names
	mainExtra, midLit := "", "mid-value"
	if edited {
		switch c.Edit {
		case "main-comment":
			mainExtra = "\n// an edit that forces main to be recompiled\n"
		case "main-literal":
			mainExtra = "\nfunc init() { println(\"edited main\") }\n"
		case "mid-literal":
			midLit = "mid-value-edited"
		}
	}
	return map[string]string{
		"go.mod": "module zqsimple/cachemod\n\ngo 1.26\n",
		"leaf/store.go": `package store

import "encoding/json"

// Encode reflects on its argument through encoding/json.
func Encode(v any) string {
	b, err := json.Marshal(v)
	if err != nil {
		return "err"
	}
	return string(b)
}

func Pad(s string) string { return "[" + s + "]" }
`,
		"mid/mid.go": fmt.Sprintf(`package mid

import "zqsimple/cachemod/leaf"

type %[1]s struct {
	%[2]s string
	Count int
	inner int
}

func Show(r %[1]s) string { return store.Pad(store.Encode(r)) }

func Wrap(v any) string { return store.Encode(v) }

var Lit = %[3]q
`, "Rec"+n[0], "Fld"+n[1], midLit),
		"main.go": fmt.Sprintf(`package main

import "zqsimple/cachemod/mid"

type %[1]s struct {
	Host%[2]s string
	Port    int
	Nested  struct{ Deep%[2]s bool }
}

func main() {
	println(mid.Show(mid.%[3]s{%[4]s: "x", Count: 2}))
	println(mid.Wrap(%[1]s{Host%[2]s: "h", Port: 8080}))
	println(mid.Wrap(&%[1]s{}))
	println(mid.Lit)
}
%[5]s`, "Cfg"+n[2], n[1], "Rec"+n[0], "Fld"+n[1], mainExtra),
	}
}

func (c c07Case) cfg() h.Config { return configByName(c.Cfg, 0) }

func listFiles(root string) []string {
	var out []string
	filepath.Walk(root, func(p string, info os.FileInfo, err error) error {
		if err == nil && !info.IsDir() {
			rel, _ := filepath.Rel(root, p)
			out = append(out, rel)
		}
		return nil
	})
	sort.Strings(out)
	return out
}

func applyFault(path, kind string) {
	switch kind {
	case "delete":
		os.Remove(path)
	case "empty":
		os.Truncate(path, 0)
	case "half":
		if st, err := os.Stat(path); err == nil {
			os.Truncate(path, st.Size()/2)
		}
	case "onebyte":
		os.Truncate(path, 1)
	}
}

var c07RefMemo = map[string][2]string{} // key -> (sha, stdout+stderr)

// c07Reference: the isolated build of the (edited) source from a module-cold cache.
func c07Reference(c c07Case, dir string) (sha, out string) {
	key := fmt.Sprintf("%v|%s|%s", c.Names, c.Edit, c.Cfg)
	if r, ok := c07RefMemo[key]; ok {
		return r[0], r[1]
	}
	rdir := filepath.Join(dir, "ref")
	src := filepath.Join(rdir, "src")
	h.WriteFiles(src, c07Module(c, true))
	box := h.NewCaseBox(rdir, c.cfg(), h.LevelStd)
	bin := filepath.Join(rdir, "ref.bin")
	if r := box.Garble(c.cfg(), src, "build", "-o", bin, "."); !r.OK() {
		rc.Abort("reference build failed: %s", r.Brief())
	}
	run := runProg(box, src, bin, nil)
	sha, out = h.FileSHA(bin), run.Stdout+run.Stderr
	c07RefMemo[key] = [2]string{sha, out}
	return
}

func c07Run(c c07Case) (v *verdict, labels []string, hit int) {
	dir := caseDir()
	defer h.RemoveAll(dir)
	// the source location is part of nothing that matters (C03), but keep it fixed anyway
	src := filepath.Join(dir, "work", "src")
	h.WriteFiles(src, c07Module(c, false))
	// reference first, at the same source path as a sibling to keep paths equal in length
	refSha, refOut := c07Reference(c, dir)
	box := h.NewCaseBox(filepath.Join(dir, "work"), c.cfg(), h.LevelStd)
	gocacheBefore := map[string]bool{}
	for _, f := range listFiles(box.GoCache) {
		gocacheBefore[f] = true
	}
	bin := filepath.Join(dir, "work", "out.bin")
	if r := box.Garble(c.cfg(), src, "build", "-o", bin, "."); !r.OK() {
		rc.Abort("warm-up build failed: %s", r.Brief())
	}
	// enumerate
	var garbleBuild, gocacheNew, tool []string
	for _, f := range listFiles(filepath.Join(box.GarbleCache, "build")) {
		garbleBuild = append(garbleBuild, filepath.Join(box.GarbleCache, "build", f))
	}
	for _, f := range listFiles(box.GoCache) {
		if !gocacheBefore[f] && !strings.Contains(f, "trim.txt") {
			gocacheNew = append(gocacheNew, filepath.Join(box.GoCache, f))
		}
	}
	for _, f := range listFiles(filepath.Join(box.GarbleCache, "tool")) {
		tool = append(tool, filepath.Join(box.GarbleCache, "tool", f))
	}
	var applied []string
	for _, f := range c.Faults {
		labels = append(labels, "area:"+f.Area, "kind:"+f.Kind)
		var pool []string
		switch f.Area {
		case "garble-build":
			pool = garbleBuild
		case "gocache-new":
			pool = gocacheNew
		case "tool":
			pool = tool
		case "dir-garble-build":
			h.RemoveAll(filepath.Join(box.GarbleCache, "build"))
			applied = append(applied, "rm -r GARBLE_CACHE/build")
			hit += len(garbleBuild)
			continue
		case "dir-tool":
			h.RemoveAll(filepath.Join(box.GarbleCache, "tool"))
			applied = append(applied, "rm -r GARBLE_CACHE/tool")
			hit += len(tool)
			continue
		case "dir-garble-cache":
			h.RemoveAll(box.GarbleCache)
			applied = append(applied, "rm -r GARBLE_CACHE")
			hit += len(garbleBuild) + len(tool)
			continue
		}
		if len(pool) == 0 {
			continue
		}
		for _, idx := range f.Pick {
			p := pool[idx%len(pool)]
			if strings.HasSuffix(p, "tool/link") && f.Kind != "delete" && strings.Contains(os.Getenv("VERIF_EXCLUDE"), "C07/rebuild-fails/linker-truncated") {
				stats.Excluded("C07/rebuild-fails/linker-truncated")
				continue
			}
			applyFault(p, f.Kind)
			rel, _ := filepath.Rel(box.Root, p)
			applied = append(applied, f.Kind+" "+rel)
			hit++
		}
	}
	// the edit, then the rebuild
	h.WriteFiles(src, c07Module(c, true))
	os.Remove(bin)
	r := box.Garble(c.cfg(), src, "build", "-o", bin, ".")
	describe := fmt.Sprintf("config %s, edit %s, damage:\n  %s", c.cfg().Key(), c.Edit, strings.Join(applied, "\n  "))
	if !r.OK() {
		key := "C07/rebuild-fails"
		for _, a := range applied {
			if strings.HasSuffix(a, "tool/link") && !strings.HasPrefix(a, "delete") {
				key = "C07/rebuild-fails/linker-truncated"
			}
		}
		return &verdict{Key: key, Msg: fmt.Sprintf("the build after cache damage fails instead of recomputing (%s)\n%s", describe, r.Brief())}, labels, hit
	}
	run := runProg(box, src, bin, nil)
	if out := run.Stdout + run.Stderr; out != refOut {
		return &verdict{Key: "C07/behaviour-differs", Msg: fmt.Sprintf("after cache damage the program behaves differently from a build from empty caches (%s)\n--- from empty caches\n%s\n--- after damage\n%s", describe, h.Clip(refOut, 1200), h.Clip(out, 1200))}, labels, hit
	}
	if sha := h.FileSHA(bin); sha != refSha {
		return &verdict{Key: "C07/binary-differs", Msg: fmt.Sprintf("after cache damage the binary differs from a build from empty caches: %s vs %s (%s)", sha[:16], refSha[:16], describe)}, labels, hit
	}
	return nil, labels, hit
}

func TestC07(t *testing.T) {
	rc.Check(t, func(t *rapid.T) {
		var c c07Case
		for i := range c.Names {
			c.Names[i] = rapid.SampledFrom([]string{"Zq1w", "Zq2w", "Zq3w"}).Draw(t, fmt.Sprintf("name%d", i))
		}
		c.Cfg = rapid.SampledFrom([]string{"default", "default", "literals", "seed"}).Draw(t, "cfg")
		c.Edit = rapid.SampledFrom([]string{"main-comment", "main-literal", "mid-literal", "none"}).Draw(t, "edit")
		nf := rapid.IntRange(1, 3).Draw(t, "nfaults")
		for i := 0; i < nf; i++ {
			var f c07Fault
			f.Area = rapid.SampledFrom([]string{"garble-build", "garble-build", "garble-build", "gocache-new", "gocache-new", "tool", "dir-garble-build", "dir-tool", "dir-garble-cache"}).Draw(t, "area")
			f.Kind = rapid.SampledFrom([]string{"delete", "empty", "half", "onebyte"}).Draw(t, "kind")
			f.Pick = rapid.SliceOfN(rapid.IntRange(0, 999), 1, 6).Draw(t, "pick")
			c.Faults = append(c.Faults, f)
		}
		v, labels, hit := c07Run(c)
		var fs []string
		for _, f := range c.Faults {
			fs = append(fs, f.Area+"/"+f.Kind)
		}
		sort.Strings(fs)
		stats.Case(stats.Desc(strings.Join(fs, "+"), c.Edit, c.Cfg), hit > 0, labels, map[string]any{"faults": c.Faults, "edit": c.Edit, "config": c.Cfg, "entries_hit": hit})
		if v != nil {
			dir := dumpViolation(v, "TestC07Replay", c, nil)
			t.Fatalf("%s: %s\nreplay: %s", v.Key, h.Clip(v.Msg, 3000), dir)
		}
	})
}

func TestC07Replay(t *testing.T) {
	rc.Fixed(t, func() {
		var c c07Case
		if k := os.Getenv("VERIF_FINDING"); k != "" {
			os.Setenv("VERIF_EXCLUDE", "")
			c = c07Case{Names: [3]string{"Zq1w", "Zq2w", "Zq3w"}, Cfg: "default", Edit: "main-comment", Faults: []c07Fault{{Area: "tool", Kind: "half", Pick: []int{0}}}}
		} else {
			loadReplay(&c)
		}
		v, labels, hit := c07Run(c)
		stats.Case("replay", hit > 0, labels, nil)
		if v != nil {
			stats.Violate(v.Key, v.Msg, nil)
			t.Errorf("%s: %s", v.Key, v.Msg)
		}
	})
}
