package checks

import (
	"fmt"
	"os"
	"testing"

	"pgregory.net/rapid"
	"verif/h"
	"verif/progen"
)

// development aid: generated body programs must build and run with the regular toolchain
func TestDevBody(t *testing.T) {
	d := os.Getenv("DEV_DUMP")
	if d == "" {
		t.Skip()
	}
	n := 0
	rapid.Check(t, func(t *rapid.T) {
		p := progen.DrawBodyProgram(t, progen.BodyOptions{MinFuncs: 6, MaxFuncs: 8})
		n++
		dir := fmt.Sprintf("%s/b%03d", d, n)
		h.WriteFiles(dir, progen.RenderBody(p, -1))
		r := h.Run(h.Cmd{Dir: dir, Env: append(os.Environ(), "GOFLAGS="), Args: []string{"go", "build", "-o", "prog.bin", "."}})
		if !r.OK() {
			t.Fatalf("vet fails in %s: %s", dir, r.Brief())
		}
	})
}
