package checks

// C08 — types that reach reflection keep their original names at run time.

import (
	"fmt"
	"os"
	"path/filepath"
	"strings"
	"testing"

	"pgregory.net/rapid"
	"verif/h"
	"verif/progen"
	"verif/rc"
	"verif/stats"
)

type c08Case struct {
	Spec   progen.Spec `json:"spec"`
	Cfg    h.Config    `json:"cfg"`
	Builds int         `json:"builds"` // independent builds: the analysis iterates Go maps
}

func c08Run(c c08Case) (v *verdict, prog *progen.Program, labels []string, flows []string) {
	dir := caseDir()
	defer h.RemoveAll(dir)
	prog = progen.Render(c.Spec)
	src := filepath.Join(dir, "src")
	h.WriteFiles(src, prog.Files)
	labels = append(labels, "cfg:"+c.Cfg.Class())
	for k := range prog.Features {
		if f, ok := strings.CutPrefix(k, "reflflow:"); ok {
			flows = append(flows, f)
		}
	}
	plain := sharedPlain()
	pbin := filepath.Join(dir, "plain.bin")
	if r := plain.Go(src, nil, "build", "-o", pbin, "."); !r.OK() {
		rc.Abort("generated program does not build: %s", r.Brief())
	}
	want := runProg(plain, src, pbin, nil)
	if want.Exit != 0 {
		rc.Abort("generated program fails: %s", want.Brief())
	}
	for b := 0; b < c.Builds; b++ {
		bdir := filepath.Join(dir, fmt.Sprintf("b%d", b))
		os.MkdirAll(bdir, 0o755)
		box := h.NewCaseBox(bdir, c.Cfg, h.LevelStd)
		gbin := filepath.Join(bdir, "garbled.bin")
		g := box.Garble(c.Cfg, src, "build", "-o", gbin, ".")
		if !g.OK() {
			return &verdict{Key: "C08/build-fails/" + failureClass(g.Stderr), Msg: fmt.Sprintf("garble %s build fails on a reflecting program (flows %v):\n%s", c.Cfg.Key(), flows, g.Brief())}, prog, labels, flows
		}
		got := runProg(box, src, gbin, nil)
		h.RemoveAll(box.Root)
		if got.Stdout != want.Stdout || got.Exit != want.Exit {
			wl, gl := strings.Split(want.Stdout, "\n"), strings.Split(got.Stdout, "\n")
			for i := range wl {
				if i >= len(gl) || gl[i] != wl[i] {
					g := "<missing>"
					if i < len(gl) {
						g = gl[i]
					}
					flow := "?"
					if f := strings.Fields(wl[i]); len(f) > 1 && f[0] == "reflect" {
						flow = f[1]
					}
					return &verdict{Key: "C08/names-lost/" + flow, Msg: fmt.Sprintf("garble %s, build %d of %d: reflection-driven output differs from the regular build (flow %q)\n  regular: %s\n  garbled: %s", c.Cfg.Key(), b+1, c.Builds, flow, h.Clip(wl[i], 600), h.Clip(g, 600))}, prog, labels, flows
				}
			}
			return violationf("C08/output-differs", "output differs (exit %d vs %d)", want.Exit, got.Exit), prog, labels, flows
		}
	}
	return nil, prog, labels, flows
}

func c08Kinds() []string {
	r := progen.KindsNeeding("reflect")
	return append(append(append([]string{}, r...), r...), "struct", "closure", "generic")
}

func c08Excluded(c c08Case, prog *progen.Program) string {
	excl := os.Getenv("VERIF_EXCLUDE")
	for k := range prog.Features {
		if f, ok := strings.CutPrefix(k, "reflflow:"); ok && strings.Contains(excl, "C08/names-lost/"+f) {
			return "C08/names-lost/" + f
		}
	}
	return ""
}

func TestC08(t *testing.T) {
	rc.Check(t, func(t *rapid.T) {
		var c c08Case
		c.Spec = progen.Draw(t, progen.Options{Kinds: c08Kinds(), MinPkgs: 2, MaxPkgs: 4, MinFeats: 2, MaxFeats: 5, NoExit: true})
		c.Spec.Args = nil
		c.Cfg = configByName(rapid.SampledFrom([]string{"default", "default", "seed", "literals", "tiny"}).Draw(t, "cfg"), 0)
		c.Builds = rc.Pick(2, 5)
		if k := c08Excluded(c, progen.Render(c.Spec)); k != "" {
			stats.Excluded(k)
			return
		}
		v, prog, labels, flows := c08Run(c)
		if len(flows) == 0 {
			stats.Case("no-reflection", false, labels, nil)
		}
		for i, f := range flows {
			var ls []string
			if i == 0 {
				ls = append(labels, "builds:"+fmt.Sprint(c.Builds))
			}
			cross := "same-pkg"
			if prog.Features["crosspkg"] {
				cross = "cross-pkg"
			}
			stats.Case(stats.Desc(f, c.Cfg.Class(), cross), true, append(ls, "flow:"+f), nil)
		}
		stats.Sample(map[string]any{"flows": flows, "config": c.Cfg.Key(), "builds": c.Builds, "features": prog.FeatureSet()})
		if v != nil {
			dir := dumpViolation(v, "TestC08Replay", c, prog)
			t.Fatalf("%s: %s\nreplay: %s", v.Key, h.Clip(v.Msg, 3000), dir)
		}
	})
}

func TestC08Replay(t *testing.T) {
	rc.Fixed(t, func() {
		var c c08Case
		if k := os.Getenv("VERIF_FINDING"); k != "" {
			os.Setenv("VERIF_EXCLUDE", "")
			// P chosen so that the "generic" flow is among the selected ones
			c = c08Case{Builds: 2, Spec: progen.Spec{ModPath: "zqsimple", Pkgs: []progen.PkgSpec{{Name: "main"}, {Dir: "pkzq1w", Name: "pkzq1w"}},
				Feats: []progen.Feat{{Kind: "reflect", Prov: 1, User: 0, Imp: "plain", P: []int{5, 5, 0, 0}}}}}
		} else {
			loadReplay(&c)
		}
		if c.Builds < 6 && os.Getenv("VERIF_FINDING") == "" {
			c.Builds = 6
		}
		v, _, labels, flows := c08Run(c)
		stats.Case("replay", len(flows) > 0, labels, nil)
		if v != nil {
			stats.Violate(v.Key, v.Msg, nil)
			t.Errorf("%s: %s", v.Key, v.Msg)
		}
	})
}
