// Package checks holds the end-to-end property checks (see DESIGN.md).
package checks
