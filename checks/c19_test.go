package checks

// C19 — garble touches only its own files.

import (
	"crypto/sha256"
	"encoding/hex"
	"fmt"
	"go/parser"
	"go/token"
	"os"
	"path/filepath"
	"sort"
	"strings"
	"testing"

	"pgregory.net/rapid"
	"verif/h"
	"verif/progen"
	"verif/rc"
	"verif/stats"
)

type c19Case struct {
	Spec     progen.Spec `json:"spec"`
	Cmd      string      `json:"cmd"`       // build | run | test | reverse | map
	Outcome  string      `json:"outcome"`   // success | list-error | type-error | dep-compile-error | link-error | bad-flag | garble-flag-after
	DebugDir string      `json:"debug_dir"` // none | absent | empty | owned | foreign-files | foreign-subdir | symlink-foreign | symlink-owned | regular-file
	Inside   bool        `json:"inside"`    // debugdir placed inside the source tree's parent (never inside the module itself)
	Warm     bool        `json:"warm"`      // a successful build of the same program ran before
	OutIn    bool        `json:"out_in"`    // -o points into the source tree
}

// snapshot lists a tree: path -> "mode size sha256|link target".
func snapshot(root string) map[string]string {
	m := map[string]string{}
	filepath.Walk(root, func(p string, info os.FileInfo, err error) error {
		if err != nil {
			return nil
		}
		rel, _ := filepath.Rel(root, p)
		switch {
		case info.Mode()&os.ModeSymlink != 0:
			t, _ := os.Readlink(p)
			m[rel] = "link " + t
		case info.IsDir():
			m[rel] = "dir " + info.Mode().String()
		default:
			data, _ := os.ReadFile(p)
			sum := sha256.Sum256(data)
			m[rel] = fmt.Sprintf("file %s %d %s", info.Mode().String(), len(data), hex.EncodeToString(sum[:8]))
		}
		return nil
	})
	return m
}

func diffSnap(before, after map[string]string, ignore func(string) bool) []string {
	var out []string
	for p, v := range before {
		if ignore(p) {
			continue
		}
		if a, ok := after[p]; !ok {
			out = append(out, "deleted: "+p)
		} else if a != v {
			out = append(out, "modified: "+p+" ("+v+" -> "+a+")")
		}
	}
	for p := range after {
		if _, ok := before[p]; !ok && !ignore(p) {
			out = append(out, "created: "+p)
		}
	}
	sort.Strings(out)
	return out
}

func c19Run(c c19Case) (v *verdict, labels []string, desc string) {
	dir := caseDir()
	defer h.RemoveAll(dir)
	labels = []string{"cmd:" + c.Cmd, "outcome:" + c.Outcome, "debugdir:" + c.DebugDir, fmt.Sprintf("warm:%v", c.Warm)}
	desc = stats.Desc(c.Cmd, c.Outcome, c.DebugDir, fmt.Sprint(c.Warm))
	prog := progen.Render(c.Spec)
	src := filepath.Join(dir, "src")
	files := prog.Files
	cfg := h.Config{}
	level := h.LevelStd
	if c.Cmd == "test" {
		level = h.LevelTest
	}
	box := h.NewCaseBox(dir, cfg, level)
	h.WriteFiles(src, files)
	if c.Warm {
		if r := box.Garble(cfg, src, "build", "-o", filepath.Join(dir, "warm.bin"), "."); !r.OK() {
			stats.Note("warm-up build failed in a C19 case (judged by C01): %s", h.Clip(r.Stderr, 200))
			return nil, append(labels, "warmup-failed"), desc
		}
	}
	// inject the failure
	last := len(c.Spec.Pkgs) - 1
	lastDir := c.Spec.Pkgs[last].Dir
	switch c.Outcome {
	case "list-error":
		h.WriteFiles(src, map[string]string{"zq_broken_import.go": "package main\n\nimport _ \"zqsimple/does/not/exist\"\n"})
	case "type-error":
		h.WriteFiles(src, map[string]string{"zq_type_error.go": "package main\n\nvar zqBroken int = \"not an int\"\n"})
	case "dep-compile-error":
		h.WriteFiles(src, map[string]string{filepath.Join(lastDir, "zq_dep_error.go"): "package " + c.Spec.Pkgs[last].Name + "\n\nfunc zqBrokenDep() int { return undefinedZq }\n"})
	case "link-error":
		h.WriteFiles(src, map[string]string{"zq_link_error.go": "package main\n\nfunc zqMissingBody() int\n\nfunc init() { println(zqMissingBody()) }\n", "zq_empty_amd64.s": "// no symbols here\n"})
	}
	// the -debugdir target
	var gflags []string
	ddParent := filepath.Join(dir, "ddparent")
	if c.Inside {
		ddParent = filepath.Join(dir, "ddparent", "deeper", "beside the module")
	}
	os.MkdirAll(ddParent, 0o755)
	dd := filepath.Join(ddParent, "dbg")
	foreign := filepath.Join(dir, "foreign-target")
	foreignNonEmpty := false
	switch c.DebugDir {
	case "none":
	case "absent":
	case "empty":
		os.MkdirAll(dd, 0o755)
	case "owned":
		h.WriteFiles(dd, map[string]string{".garble-debugdir": "", "source/stale/old.go": "package stale\n", "garbled/stale/old.go": "package stale\n"})
	case "foreign-files":
		h.WriteFiles(dd, map[string]string{"notes.txt": "do not delete me\n", "data.bin": "\x00\x01"})
		foreignNonEmpty = true
	case "foreign-subdir":
		h.WriteFiles(dd, map[string]string{"sub/dir/keep.txt": "keep\n"})
		foreignNonEmpty = true
	case "symlink-foreign":
		h.WriteFiles(foreign, map[string]string{"precious.txt": "precious\n"})
		os.Symlink(foreign, dd)
		foreignNonEmpty = true
	case "symlink-owned":
		h.WriteFiles(foreign, map[string]string{".garble-debugdir": "", "source/old.go": "package old\n"})
		os.Symlink(foreign, dd)
	case "regular-file":
		os.WriteFile(dd, []byte("i am a file\n"), 0o644)
		foreignNonEmpty = true
	}
	usesDebugDir := c.DebugDir != "none" && (c.Cmd == "build" || c.Cmd == "test" || c.Cmd == "run")
	if usesDebugDir {
		gflags = append(gflags, "-debugdir="+dd)
	}
	// command line
	out := filepath.Join(dir, "out.bin")
	if c.OutIn {
		out = filepath.Join(src, "zq-output.bin")
	}
	var args []string
	switch c.Cmd {
	case "build":
		args = []string{"build", "-o", out, "."}
	case "run":
		args = []string{"run", "."}
	case "test":
		args = []string{"test", "./..."}
	case "reverse":
		args = []string{"reverse", "."}
	case "map":
		args = []string{"map", "./..."}
	}
	switch c.Outcome {
	case "bad-flag":
		args = append([]string{args[0], "-zqnosuchflag=1"}, args[1:]...)
	case "garble-flag-after":
		args = append([]string{args[0], "-tiny"}, args[1:]...)
	}
	srcBefore := snapshot(src)
	ddBefore := snapshot(ddParent)
	foreignBefore := snapshot(foreign)
	res := h.Run(h.Cmd{Dir: src, Env: box.Env(cfg), Args: append(append([]string{box.GarbleBin}, gflags...), args...), Stdin: "some text to reverse\n", Timeout: 15 * 60e9})
	if res.TimedOut {
		rc.Abort("garble timed out: %s", res.Brief())
	}
	describe := fmt.Sprintf("garble %s %s (outcome %s, debugdir %s, warm %v)\n%s", strings.Join(gflags, " "), strings.Join(args, " "), c.Outcome, c.DebugDir, c.Warm, res.Brief())

	// 1. the source tree
	ignore := func(p string) bool { return c.OutIn && p == "zq-output.bin" }
	if d := diffSnap(srcBefore, snapshot(src), ignore); len(d) > 0 {
		return violationf("C19/source-tree-changed", "the source tree changed:\n  %s\n%s", strings.Join(d, "\n  "), describe), labels, desc
	}
	// 2. TMPDIR
	if ents, _ := os.ReadDir(box.Tmp); len(ents) > 0 {
		var names []string
		for _, e := range ents {
			names = append(names, e.Name())
		}
		key := "C19/tmpdir-leftovers"
		return violationf(key, "TMPDIR is not empty after the command: %s\n%s", strings.Join(names, ", "), describe), labels, desc
	}
	// 3. the -debugdir target
	if usesDebugDir && c.Outcome != "garble-flag-after" && c.Outcome != "bad-flag" || usesDebugDir && foreignNonEmpty {
		switch {
		case foreignNonEmpty:
			if c.Outcome == "success" && res.Exit == 0 {
				return violationf("C19/foreign-debugdir-accepted", "a non-empty -debugdir target without the marker was not refused:\n%s", describe), labels, desc
			}
			if d := diffSnap(ddBefore, snapshot(ddParent), func(string) bool { return false }); len(d) > 0 {
				return violationf("C19/foreign-debugdir-touched", "a -debugdir target garble does not own was modified:\n  %s\n%s", strings.Join(d, "\n  "), describe), labels, desc
			}
			if d := diffSnap(foreignBefore, snapshot(foreign), func(string) bool { return false }); len(d) > 0 {
				return violationf("C19/foreign-debugdir-touched", "the directory behind a -debugdir symlink was modified:\n  %s\n%s", strings.Join(d, "\n  "), describe), labels, desc
			}
		case c.Outcome == "success" && (c.Cmd == "build" || c.Cmd == "run" || c.Cmd == "test"):
			if res.Exit != 0 {
				stats.Note("garble failed in a C19 success case (judged by C01): %s", h.Clip(res.Stderr, 200))
				return nil, append(labels, "garble-failed"), desc
			}
			// complete source and garbled trees, whatever the cache state
			for i, p := range c.Spec.Pkgs {
				ents, _ := os.ReadDir(filepath.Join(src, p.Dir))
				for _, e := range ents {
					name := e.Name()
					if e.IsDir() || !strings.HasSuffix(name, ".go") || strings.HasSuffix(name, "_test.go") {
						continue
					}
					ipath := c.Spec.ImportPath(i)
					orig, _ := os.ReadFile(filepath.Join(src, p.Dir, name))
					sfile := filepath.Join(dd, "source", ipath, name)
					gfile := filepath.Join(dd, "garbled", ipath, name)
					sdata, serr := os.ReadFile(sfile)
					if serr != nil || string(sdata) != string(orig) {
						return violationf("C19/debugdir-incomplete", "the -debugdir source tree lacks or alters %s/%s (error: %v)\n%s", ipath, name, serr, describe), labels, desc
					}
					gdata, gerr := os.ReadFile(gfile)
					if gerr != nil {
						return violationf("C19/debugdir-incomplete", "the -debugdir garbled tree lacks %s/%s: %v\n%s", ipath, name, gerr, describe), labels, desc
					}
					if _, perr := parser.ParseFile(token.NewFileSet(), gfile, gdata, parser.SkipObjectResolution); perr != nil {
						return violationf("C19/debugdir-garbled-corrupt", "the -debugdir garbled tree holds a file that is not the Go source garble compiled: %s/%s does not parse: %v\n%s", ipath, name, perr, describe), labels, desc
					}
				}
			}
			if _, err := os.Stat(filepath.Join(dd, "source", "stale")); err == nil {
				return violationf("C19/debugdir-stale", "an owned -debugdir still holds stale content of an earlier run\n%s", describe), labels, desc
			}
			labels = append(labels, "debugdir-complete")
		}
	}
	return nil, labels, desc
}

func TestC19(t *testing.T) {
	rc.Check(t, func(t *rapid.T) {
		var c c19Case
		c.Spec = progen.Draw(t, progen.Options{MinPkgs: 2, MaxPkgs: 3, MinFeats: 2, MaxFeats: 5, NoExit: true, Kinds: append(progen.DefaultKinds(), progen.KindsNeeding("asm")...)})
		c.Spec.Args = nil
		c.Cmd = rapid.SampledFrom([]string{"build", "build", "build", "run", "reverse", "map"}).Draw(t, "cmd")
		c.Outcome = rapid.SampledFrom([]string{"success", "success", "success", "list-error", "type-error", "dep-compile-error", "link-error", "bad-flag", "garble-flag-after"}).Draw(t, "outcome")
		c.DebugDir = rapid.SampledFrom([]string{"none", "absent", "empty", "owned", "owned", "foreign-files", "foreign-subdir", "symlink-foreign", "symlink-owned", "regular-file"}).Draw(t, "debugdir")
		c.Inside = rapid.Bool().Draw(t, "inside")
		c.Warm = rapid.Bool().Draw(t, "warm")
		c.OutIn = rapid.Bool().Draw(t, "outin")
		v, labels, desc := c19Run(c)
		stats.Case(desc, c.Outcome != "success" || c.DebugDir != "none", labels, map[string]any{"cmd": c.Cmd, "outcome": c.Outcome, "debugdir": c.DebugDir, "warm": c.Warm, "output_in_source_tree": c.OutIn})
		if v != nil {
			dir := dumpViolation(v, "TestC19Replay", c, nil)
			t.Fatalf("%s: %s\nreplay: %s", v.Key, h.Clip(v.Msg, 3000), dir)
		}
	})
}

func TestC19Replay(t *testing.T) {
	rc.Fixed(t, func() {
		var c c19Case
		if k := os.Getenv("VERIF_FINDING"); k != "" {
			c = c19Case{Cmd: "build", Outcome: "success", DebugDir: "absent", Spec: progen.Spec{ModPath: "zqsimple", Pkgs: []progen.PkgSpec{{Name: "main"}, {Dir: "pkzq1w", Name: "pkzq1w"}},
				Feats: []progen.Feat{{Kind: "struct", Prov: 1, User: 0, Imp: "plain", P: []int{1, 2, 3, 4}}, {Kind: "closure", Prov: 1, User: 0, Imp: "plain", P: []int{1, 2, 3, 4}}, {Kind: "iface", Prov: 1, User: 1, Imp: "plain", P: []int{1, 2, 3, 4}}}}}
		} else {
			loadReplay(&c)
		}
		v, labels, desc := c19Run(c)
		stats.Case(desc, true, labels, nil)
		if v != nil {
			stats.Violate(v.Key, v.Msg, nil)
			t.Errorf("%s: %s", v.Key, v.Msg)
		}
	})
}
