package checks

// C01 — obfuscated builds behave exactly like regular builds.

import (
	"fmt"
	"os"
	"path/filepath"
	"strings"
	"testing"

	"pgregory.net/rapid"
	"verif/h"
	"verif/progen"
	"verif/rc"
	"verif/stats"
)

type c01Case struct {
	Spec progen.Spec `json:"spec"`
	Cfg  h.Config    `json:"cfg"`
	Cmd  string      `json:"cmd"` // build | run | test
}

// c01Kinds are the feature kinds C01 draws from (everything without known
// findings; known-finding shapes are counted as excluded).
func c01Kinds(cmd string) []string {
	ks := progen.DefaultKinds()
	ks = append(ks, "unicode", "unicode") // more weight: non-ASCII exported names used across packages
	ks = append(ks, progen.KindsNeeding("linkname")...)
	ks = append(ks, progen.KindsNeeding("asm")...)
	ks = append(ks, progen.KindsNeeding("ldflags")...)
	if cmd == "test" {
		ks = append(ks, progen.KindsNeeding("test")...)
	}
	return ks
}

func c01Run(c c01Case) (v *verdict, prog *progen.Program, labels []string) {
	dir := caseDir()
	defer h.RemoveAll(dir)
	prog = progen.Render(c.Spec)
	src := filepath.Join(dir, "src")
	h.WriteFiles(src, prog.Files)
	labels = append(labels, "cfg:"+c.Cfg.Class(), "cmd:"+c.Cmd)
	for _, k := range sortedKeys(prog.Features) {
		labels = append(labels, "feat:"+k)
	}
	plain := sharedPlain()
	var extra []string
	if prog.LdFlags != "" {
		extra = append(extra, "-ldflags="+prog.LdFlags)
	}
	level := h.LevelStd
	if c.Cmd == "test" {
		level = h.LevelTest
	}
	box := h.NewCaseBox(dir, c.Cfg, level)

	switch c.Cmd {
	case "build":
		plainBin := filepath.Join(dir, "plain.bin")
		r := plain.Go(src, nil, append(append([]string{"build", "-trimpath"}, extra...), "-o", plainBin, ".")...)
		if !r.OK() {
			rc.Abort("generated program does not build with the regular toolchain (generator bug):\n%s", r.Brief())
		}
		garbledBin := filepath.Join(dir, "garbled.bin")
		g := box.Garble(c.Cfg, src, append(append([]string{"build"}, extra...), "-o", garbledBin, ".")...)
		if !g.OK() {
			return &verdict{Key: "C01/build-fails/" + failureClass(g.Stderr), Msg: fmt.Sprintf("garble %s build fails on a program the regular toolchain builds (features %s):\n%s", c.Cfg.Key(), prog.FeatureSet(), g.Brief())}, prog, labels
		}
		for _, args := range c.Spec.Args {
			want := runProg(plain, src, plainBin, args)
			got := runProg(box, src, garbledBin, args)
			if want.TimedOut || want.Err != nil {
				rc.Abort("plain program did not run: %s", want.Brief())
			}
			if d := diffRuns(want, got); d != "" {
				return &verdict{Key: "C01/behaviour-differs", Msg: fmt.Sprintf("garble %s: program run with args %q differs from the regular build (features %s): %s\n--- regular\n%s\n--- garbled\n%s", c.Cfg.Key(), args, prog.FeatureSet(), d, want.Brief(), got.Brief())}, prog, labels
			}
		}
	case "run":
		for _, args := range c.Spec.Args[:1] {
			want := plain.Go(src, []string{"GOTRACEBACK=none"}, append(append(append([]string{"run", "-trimpath"}, extra...), "."), args...)...)
			if want.TimedOut || want.Err != nil || strings.Contains(want.Stderr, "# ") {
				rc.Abort("go run failed: %s", want.Brief())
			}
			got := box.GarbleX(c.Cfg, src, nil, []string{"GOTRACEBACK=none"}, append(append(append([]string{"run"}, extra...), "."), args...)...)
			// The statement covers stdout and exit status. The wrappers' own
			// stderr chatter ("exit status N", printed once by go run and once
			// more by garble) is not program behaviour, so it is not compared.
			want.Stderr, got.Stderr = "", ""
			if d := diffRuns(want, got); d != "" {
				return &verdict{Key: "C01/run-differs", Msg: fmt.Sprintf("garble %s run with args %q differs from go run (features %s): %s\n--- go run\n%s\n--- garble run\n%s", c.Cfg.Key(), args, prog.FeatureSet(), d, want.Brief(), got.Brief())}, prog, labels
			}
		}
	case "test":
		want := plain.Go(src, nil, "test", "-trimpath", "-count=1", "-v", "./...")
		if want.TimedOut || want.Err != nil || strings.Contains(want.Stdout+want.Stderr, "[build failed]") || strings.Contains(want.Stdout+want.Stderr, "[setup failed]") {
			rc.Abort("go test failed to build: %s", want.Brief())
		}
		got := box.Garble(c.Cfg, src, "test", "-count=1", "-v", "./...")
		wv, gv := testVerdicts(want.Stdout), testVerdicts(got.Stdout)
		if wv != gv || want.Exit != got.Exit {
			return &verdict{Key: "C01/test-differs", Msg: fmt.Sprintf("garble %s test verdicts differ from go test (features %s)\n--- go test (exit %d)\n%s\n--- garble test (exit %d)\n%s\n%s", c.Cfg.Key(), prog.FeatureSet(), want.Exit, wv, got.Exit, gv, got.Brief())}, prog, labels
		}
	}
	return nil, prog, labels
}

// failureClass gives a coarse, stable class of a garble failure for the
// classifier key (so that distinct root causes get distinct keys).
func failureClass(stderr string) string {
	switch {
	case strings.Contains(stderr, "could not find struct for field"):
		return "no-struct-for-field"
	case strings.Contains(stderr, "panic:"):
		return "garble-panic"
	case strings.Contains(stderr, "typecheck error"):
		return "typecheck"
	case strings.Contains(stderr, "undefined:") || strings.Contains(stderr, "undefined ("):
		return "undefined-name"
	case strings.Contains(stderr, "relocation target") || strings.Contains(stderr, "undefined reference") || strings.Contains(stderr, "link:"):
		return "link"
	case strings.Contains(stderr, "redeclared"):
		return "redeclared"
	case strings.Contains(stderr, "asm:"):
		return "asm"
	}
	return "other"
}

// diffRuns compares what the statement says must agree: stdout, exit status
// and (when the regular build wrote none) the absence of stderr output.
func diffRuns(want, got h.Result) string {
	switch {
	case got.TimedOut:
		return "obfuscated program timed out"
	case got.Err != nil:
		return "obfuscated program did not start: " + got.Err.Error()
	case want.Stdout != got.Stdout:
		return "stdout differs"
	case want.Exit != got.Exit:
		return fmt.Sprintf("exit status %d vs %d", want.Exit, got.Exit)
	case want.Stderr == "" && got.Stderr != "":
		return "unexpected stderr output"
	case want.Stderr != "" && normaliseRunStderr(want.Stderr) != normaliseRunStderr(got.Stderr):
		return "stderr differs"
	}
	return ""
}

// normaliseRunStderr keeps the program's own stderr and `exit status N`.
func normaliseRunStderr(s string) string { return s }

// testVerdicts extracts per-test verdict lines ("--- PASS: TestX", "ok"/"FAIL"
// per package without names of obfuscated packages or timings).
func testVerdicts(out string) string {
	var keep []string
	for _, l := range strings.Split(out, "\n") {
		t := strings.TrimSpace(l)
		switch {
		case strings.HasPrefix(t, "--- PASS:"), strings.HasPrefix(t, "--- FAIL:"), strings.HasPrefix(t, "--- SKIP:"):
			f := strings.Fields(t)
			keep = append(keep, f[1]+" "+f[2])
		case t == "PASS", t == "FAIL":
			keep = append(keep, t)
		case strings.HasPrefix(t, "zqout "):
			keep = append(keep, t)
		}
	}
	return strings.Join(keep, "\n")
}

func c01Nontrivial(p *progen.Program) bool {
	return p.Features["multipkg"] && p.Features["crosspkg"]
}

func TestC01(t *testing.T) {
	rc.Check(t, func(t *rapid.T) {
		var c c01Case
		c.Cmd = rapid.SampledFrom([]string{"build", "build", "build", "build", "run", "test"}).Draw(t, "cmd")
		c.Spec = progen.Draw(t, progen.Options{Kinds: c01Kinds(c.Cmd), MinPkgs: 1, MaxPkgs: 5, MinFeats: 2, MaxFeats: 8})
		c.Cfg = drawConfig(t, "cfg", true)
		// Exportedness of a non-ASCII name only matters across a package
		// boundary: place the user of a unicode feature in an earlier package.
		for i := range c.Spec.Feats {
			if f := &c.Spec.Feats[i]; f.Kind == "unicode" && f.User == f.Prov && f.Prov > 0 {
				f.User = f.Prov - 1
			}
		}
		v, prog, labels := c01Run(c)
		stats.Case(stats.Desc(prog.FeatureSet(), c.Cfg.Class(), c.Cmd), c01Nontrivial(prog), labels,
			map[string]any{"features": prog.FeatureSet(), "config": c.Cfg.Key(), "cmd": c.Cmd, "packages": len(c.Spec.Pkgs), "args": c.Spec.Args})
		if v != nil {
			dir := dumpViolation(v, "TestC01Replay", c, prog)
			t.Fatalf("%s: %s\nreplay: %s", v.Key, h.Clip(v.Msg, 3000), dir)
		}
	})
}

func TestC01Replay(t *testing.T) {
	rc.Fixed(t, func() {
		var c c01Case
		switch os.Getenv("VERIF_FINDING") {
		case "":
			loadReplay(&c)
		case "C01/run-differs":
			// garble run . 13 x: program arguments were listed as packages
			c = c01Case{Cmd: "run", Spec: progen.Spec{ModPath: "zqsimple", Pkgs: []progen.PkgSpec{{Name: "main"}},
				Feats: []progen.Feat{{Kind: "closure", P: []int{1, 2, 3, 4}, Imp: "plain"}}, Args: [][]string{{"13", "x"}}}}
		case "C01/build-fails/no-struct-for-field":
			c = c01Case{Cmd: "build", Spec: progen.Spec{ModPath: "zqsimple", Pkgs: []progen.PkgSpec{{Name: "main"}, {Dir: "pkzq1w", Name: "pkzq1w"}},
				Feats: []progen.Feat{{Kind: "genericanon", Prov: 1, User: 0, P: []int{1, 2, 3, 4}, Imp: "plain"}}, Args: [][]string{{"5"}}}}
		default:
			rc.Abort("unknown finding %s", os.Getenv("VERIF_FINDING"))
		}
		v, prog, labels := c01Run(c)
		stats.Case(prog.FeatureSet(), true, labels, nil)
		if v != nil {
			stats.Violate(v.Key, v.Msg, nil)
			t.Errorf("%s: %s", v.Key, v.Msg)
		}
	})
}
