package checks

// C04 — garble reverse restores obfuscated traces exactly.

import (
	"fmt"
	"os"
	"path/filepath"
	"regexp"
	"strings"
	"testing"

	"pgregory.net/rapid"
	"verif/h"
	"verif/rc"
	"verif/stats"
)

type c04Frame struct {
	Kind string `json:"kind"` // func | method | ptrmethod | generic | genmethod | closure | goroutine | deferred | defclosure | goclosure
	Pkg  int    `json:"pkg"`  // 0 = main, 1.. = dependencies
	File int    `json:"file"` // file index inside the package
}

type c04Case struct {
	Frames []c04Frame `json:"frames"`
	End    string     `json:"end"` // panic | printstack | caller
	Cfg    string     `json:"cfg"` // default | literals | seed | tags
	NPkgs  int        `json:"npkgs"`
	Text   []string   `json:"text"` // surrounding text lines for the pass-through law
	Pad    int        `json:"pad"`  // blank/comment lines inserted before functions
}

func (c c04Case) cfg() (h.Config, []string) {
	switch c.Cfg {
	case "literals":
		return h.Config{Literals: true}, nil
	case "seed":
		return h.Config{Seed: fixedSeeds[0]}, nil
	case "tags":
		return h.Config{}, []string{"-tags=zqtag"}
	}
	return h.Config{}, nil
}

const c04Mod = "zqsimple/revprog"

func c04PkgName(i int) string {
	if i == 0 {
		return "main"
	}
	return fmt.Sprintf("rvzq%dw", i)
}

func c04PkgDir(i int) string {
	if i == 0 {
		return ""
	}
	return fmt.Sprintf("sub/rvzq%dw", i)
}

// name of frame i's entry function as seen from another package
func c04FuncName(i int) string { return fmt.Sprintf("FrZq%dw", i) }

// c04Call renders the call expression that enters frame i (from package `from`).
func c04Call(c c04Case, i, from int) string {
	f := c.Frames[i]
	q := ""
	if f.Pkg != from {
		q = c04PkgName(f.Pkg) + "."
	}
	switch f.Kind {
	case "method":
		return fmt.Sprintf("%sTyZq%dw{}.MeZq%dw(n + 1)", q, i, i)
	case "ptrmethod":
		return fmt.Sprintf("%sNewZq%dw().MeZq%dw(n + 1)", q, i, i)
	case "generic":
		return fmt.Sprintf("%s%s[int](n + 1)", q, c04FuncName(i))
	case "genmethod":
		return fmt.Sprintf("%sGtZq%dw[string]{}.MeZq%dw(n + 1)", q, i, i)
	}
	return fmt.Sprintf("%s%s(n + 1)", q, c04FuncName(i))
}

func c04Source(c c04Case) map[string]string {
	type fileKey struct{ pkg, file int }
	bodies := map[fileKey]*strings.Builder{}
	imports := map[fileKey]map[int]bool{}
	get := func(k fileKey) *strings.Builder {
		if bodies[k] == nil {
			bodies[k] = &strings.Builder{}
			imports[k] = map[int]bool{}
		}
		return bodies[k]
	}
	for i, f := range c.Frames {
		k := fileKey{f.Pkg, f.File}
		b := get(k)
		// what this frame does: call the next frame, or the end action
		var action string
		if i+1 < len(c.Frames) {
			nf := c.Frames[i+1]
			if nf.Pkg != f.Pkg {
				imports[k][nf.Pkg] = true
			}
			action = c04Call(c, i+1, f.Pkg)
		} else {
			switch c.End {
			case "panic":
				action = `panic("zq end of chain " + itoaZq(n))`
			case "printstack":
				action = "endStackZq(n)"
			default:
				action = "endCallerZq(n)"
			}
		}
		for p := 0; p < c.Pad; p++ {
			fmt.Fprintf(b, "// padding line %d before frame %d\n\n", p, i)
		}
		var sig string
		switch f.Kind {
		case "method":
			fmt.Fprintf(b, "type TyZq%dw struct{ fdZq%dw int }\n\n", i, i)
			sig = fmt.Sprintf("func (t TyZq%dw) MeZq%dw(n int)", i, i)
		case "ptrmethod":
			fmt.Fprintf(b, "type TyZq%dw struct{ fdZq%dw int }\n\nfunc NewZq%dw() *TyZq%dw { return &TyZq%dw{} }\n\n", i, i, i, i, i)
			sig = fmt.Sprintf("func (t *TyZq%dw) MeZq%dw(n int)", i, i)
		case "generic":
			sig = fmt.Sprintf("func %s[T any](n T)", c04FuncName(i))
		case "genmethod":
			fmt.Fprintf(b, "type GtZq%dw[T any] struct{ fdZq%dw T }\n\n", i, i)
			sig = fmt.Sprintf("func (g GtZq%dw[T]) MeZq%dw(n int)", i, i)
		default:
			sig = fmt.Sprintf("func %s(n int)", c04FuncName(i))
		}
		fmt.Fprintf(b, "//go:noinline\n%s {\n", sig)
		if f.Kind == "generic" {
			b.WriteString("\tnn := any(n).(int)\n\t{\n\t\tn := nn\n")
		}
		ind := "\t"
		if f.Kind == "generic" {
			ind = "\t\t"
		}
		switch f.Kind {
		case "closure":
			fmt.Fprintf(b, "%sclZq := func(n int) {\n%s\t%s\n%s}\n%sclZq(n)\n", ind, ind, action, ind, ind)
		case "goroutine":
			fmt.Fprintf(b, "%sdoneZq := make(chan bool)\n%sgo goHelperZq%d(n, doneZq)\n%s<-doneZq\n", ind, ind, i, ind)
		case "goclosure":
			fmt.Fprintf(b, "%sdoneZq := make(chan bool)\n%sgo func() {\n%s\t%s\n%s\tclose(doneZq)\n%s}()\n%s<-doneZq\n", ind, ind, ind, action, ind, ind, ind)
		case "deferred":
			fmt.Fprintf(b, "%sdefer %s\n", ind, action)
		case "defclosure":
			fmt.Fprintf(b, "%sdefer func() {\n%s\t%s\n%s}()\n", ind, ind, action, ind)
		default:
			fmt.Fprintf(b, "%s%s\n", ind, action)
		}
		if f.Kind == "generic" {
			b.WriteString("\t}\n")
		}
		b.WriteString("\tkeepZq(n)\n}\n\n")
		if f.Kind == "goroutine" {
			fmt.Fprintf(b, "//go:noinline\nfunc goHelperZq%d(n int, done chan bool) {\n\t%s\n\tclose(done)\n}\n\n", i, action)
		}
	}
	files := map[string]string{"go.mod": "module " + c04Mod + "\n\ngo 1.26\n"}
	helpers := func(pkg string) string {
		return fmt.Sprintf(`package %s

import (
	"os"
	"runtime"
	"runtime/debug"
	"strconv"
)

var sinkZq int

//go:noinline
func keepZq(n any) { sinkZq++ }

func itoaZq(n int) string { return strconv.Itoa(n) }

//go:noinline
func endStackZq(n int) {
	debug.PrintStack()
	os.Exit(3)
}

//go:noinline
func endCallerZq(n int) {
	for skip := 0; skip < 4; skip++ {
		_, file, line, ok := runtime.Caller(skip)
		println("caller", skip, file+":"+strconv.Itoa(line), ok)
	}
	os.Exit(4)
}
`, pkg)
	}
	pkgsUsed := map[int]bool{0: true}
	for k := range bodies {
		pkgsUsed[k.pkg] = true
	}
	for p := range pkgsUsed {
		files[filepath.Join(c04PkgDir(p), "zq_helpers.go")] = helpers(c04PkgName(p))
	}
	for k, b := range bodies {
		var imp strings.Builder
		for p := range imports[k] {
			fmt.Fprintf(&imp, "import %q\n", c04Mod+"/"+c04PkgDir(p))
		}
		name := fmt.Sprintf("frames_zq%d.go", k.file)
		files[filepath.Join(c04PkgDir(k.pkg), name)] = fmt.Sprintf("package %s\n\n%s\n%s", c04PkgName(k.pkg), sortLines(imp.String()), b.String())
	}
	// main
	mainImp := ""
	if c.Frames[0].Pkg != 0 {
		mainImp = fmt.Sprintf("import %q\n", c04Mod+"/"+c04PkgDir(c.Frames[0].Pkg))
	}
	files["main.go"] = fmt.Sprintf("package main\n\n%s\nfunc main() {\n\tn := len(os_argsZq())\n\t%s\n}\n", mainImp, strings.Replace(c04Call(c, 0, 0), "n + 1", "n", 1))
	files["zq_args.go"] = "package main\n\nimport \"os\"\n\nfunc os_argsZq() []string { return os.Args }\n"
	if c.Cfg == "tags" {
		// a tag-dependent file pair in main: the build and reverse must both see the tag
		files["zq_tag_on.go"] = "//go:build zqtag\n\npackage main\n\nfunc init() { println(\"tag on\") }\n"
		files["zq_tag_off.go"] = "//go:build !zqtag\n\npackage main\n\nfunc init() { println(\"tag off\") }\n"
	}
	return files
}

func sortLines(s string) string {
	ls := strings.Split(strings.TrimSpace(s), "\n")
	for i := range ls {
		for j := i + 1; j < len(ls); j++ {
			if ls[j] < ls[i] {
				ls[i], ls[j] = ls[j], ls[i]
			}
		}
	}
	return strings.Join(ls, "\n") + "\n"
}

var (
	rxOffset   = regexp.MustCompile(` \+0x[0-9a-f]+`)
	rxArgs     = regexp.MustCompile(`\((0x[0-9a-f]+|\{[^)]*\}|\.\.\.|[0-9a-fx?{}, ]+)*\)$`)
	rxGoID     = regexp.MustCompile(`goroutine \d+`)
	rxFramePtr = regexp.MustCompile(` (fp|sp|pc)=0x[0-9a-f]+`)
)

// normTrace strips what legitimately differs between two builds of the same
// program: code offsets, argument words, goroutine numbers.
func normTrace(s string) string {
	var out []string
	for _, l := range strings.Split(s, "\n") {
		l = rxOffset.ReplaceAllString(l, "")
		l = rxFramePtr.ReplaceAllString(l, "")
		l = rxGoID.ReplaceAllString(l, "goroutine N")
		if !strings.HasPrefix(l, "\t") && !strings.HasPrefix(l, "caller") {
			l = rxArgs.ReplaceAllString(l, "(...)")
		}
		out = append(out, l)
	}
	return strings.Join(out, "\n")
}

func c04Run(c c04Case) (v *verdict, labels []string, nontrivial bool, desc string) {
	dir := caseDir()
	defer h.RemoveAll(dir)
	src := filepath.Join(dir, "src")
	files := c04Source(c)
	h.WriteFiles(src, files)
	cfg, buildFlags := c.cfg()
	plain := sharedPlain()
	pbin, gbin := filepath.Join(dir, "plain.bin"), filepath.Join(dir, "garbled.bin")
	if r := plain.Go(src, nil, append(append([]string{"build", "-trimpath"}, buildFlags...), "-o", pbin, ".")...); !r.OK() {
		rc.Abort("C04 program does not build with the regular toolchain:\n%s\n%s", r.Brief(), files["main.go"])
	}
	box := h.NewCaseBox(dir, cfg, h.LevelStd)
	if g := box.Garble(cfg, src, append(append([]string{"build"}, buildFlags...), "-o", gbin, ".")...); !g.OK() {
		return &verdict{Key: "C04/build-fails", Msg: "garble build fails:\n" + g.Brief()}, nil, false, ""
	}
	want := runProg(plain, src, pbin, nil)
	got := runProg(box, src, gbin, nil)
	// GOTRACEBACK=none is set by runProg; traces need the default
	want = h.Run(h.Cmd{Dir: src, Env: plain.Env(h.Config{}), Args: []string{pbin}})
	got = h.Run(h.Cmd{Dir: src, Env: box.Env(h.Config{}), Args: []string{gbin}})
	if want.Exit != got.Exit {
		return violationf("C04/exit-differs", "exit status differs: regular %d, garbled %d", want.Exit, got.Exit), nil, false, ""
	}
	var kinds []string
	for _, f := range c.Frames {
		kinds = append(kinds, f.Kind)
		labels = append(labels, "frame:"+f.Kind)
	}
	labels = append(labels, "end:"+c.End, "cfg:"+c.Cfg)
	desc = stats.Desc(strings.Join(kinds, ">"), c.End, c.Cfg)

	// reverse the garbled trace
	rev := box.GarbleX(cfg, src, nil, nil, append(append([]string{"reverse"}, buildFlags...), ".")...)
	_ = rev
	revRes := h.Run(h.Cmd{Dir: src, Env: box.Env(cfg), Args: append(append(append([]string{box.GarbleBin}, cfg.Flags()...), append([]string{"reverse"}, buildFlags...)...), "."), Stdin: got.Stderr})
	if revRes.Exit != 0 {
		return violationf("C04/reverse-fails", "garble reverse exits %d on an obfuscated trace:\n%s\n--- input\n%s", revRes.Exit, revRes.Brief(), h.Clip(got.Stderr, 2000)), labels, false, desc
	}
	// count obfuscated frames: lines of the garbled trace that differ from the regular one
	gl, wl := strings.Split(normTrace(got.Stderr), "\n"), strings.Split(normTrace(want.Stderr), "\n")
	obf := 0
	for i := range gl {
		if i < len(wl) && gl[i] != wl[i] && strings.HasPrefix(gl[i], "\t") {
			obf++
		}
	}
	multiPkg := false
	for _, f := range c.Frames {
		if f.Pkg != 0 {
			multiPkg = true
		}
	}
	nontrivial = obf >= 3 && multiPkg
	// The frame of a function that is running its deferred calls sits at the
	// function's end, not at a call site: its position line is outside the
	// statement ("each call-site position") and is masked on both sides.
	mask := func(s string) string {
		ls := strings.Split(s, "\n")
		for i := 1; i < len(ls); i++ {
			for fi, f := range c.Frames {
				if (f.Kind == "deferred" || f.Kind == "defclosure") && strings.Contains(ls[i-1], "."+c04FuncName(fi)+"(") && strings.HasPrefix(ls[i], "\t") {
					ls[i] = "\t<position of a function running its deferred calls>"
				}
			}
		}
		return strings.Join(ls, "\n")
	}
	wl = strings.Split(mask(normTrace(want.Stderr)), "\n")
	if mask(normTrace(revRes.Stdout)) != mask(normTrace(want.Stderr)) {
		rl := strings.Split(mask(normTrace(revRes.Stdout)), "\n")
		diff := ""
		for i := range wl {
			if i >= len(rl) || rl[i] != wl[i] {
				r := "<missing>"
				if i < len(rl) {
					r = rl[i]
				}
				diff = fmt.Sprintf("first difference at line %d:\n  regular -trimpath build: %s\n  reversed:                %s\n  obfuscated:              %s", i+1, wl[i], r, safeIdx(gl, i))
				break
			}
		}
		key := "C04/reverse-differs"
		for i := range wl {
			if i >= len(rl) || rl[i] != wl[i] {
				if i > 0 && strings.HasPrefix(wl[i-1], "created by ") {
					key = "C04/reverse-differs/created-by"
				} else {
					for _, f := range c.Frames {
						if f.Kind == "defclosure" || f.Kind == "goclosure" {
							key = "C04/reverse-differs/funclit-call"
						}
					}
				}
				break
			}
		}
		return &verdict{Key: key, Msg: fmt.Sprintf("garble reverse of the obfuscated trace does not equal what the regular -trimpath build prints (frames %s, end %s, config %s)\n%s\n--- regular\n%s\n--- reversed\n%s", strings.Join(kinds, ">"), c.End, c.Cfg, diff, h.Clip(want.Stderr, 2500), h.Clip(revRes.Stdout, 2500))}, labels, nontrivial, desc
	}

	// long-line law: an obfuscated trace line that follows arbitrarily much unrelated text on the same
	// line is still reversed, wherever in the line its tokens fall (offsets around the sizes I/O buffers
	// come in: every offset of the line relative to a 4 KiB and a 64 KiB boundary).
	if os.Getenv("VERIF_PENDING") == "1" { // not yet validated on the unchanged tree (DESIGN.md 10.10)
		gl, rl := strings.SplitAfter(got.Stderr, "\n"), strings.SplitAfter(revRes.Stdout, "\n")
		k := -1
		for i := range gl {
			if i < len(rl) && gl[i] != rl[i] && strings.HasSuffix(gl[i], "\n") && len(gl[i]) < 400 {
				k = i
				break
			}
		}
		if k >= 0 {
			for _, base := range []int{4096, 65536} {
				var in, wantOut strings.Builder
				for o := 1; o < len(gl[k]); o++ {
					pad := strings.Repeat("x", base-o-1) + " "
					in.WriteString(pad + gl[k])
					wantOut.WriteString(pad + rl[k])
				}
				ll := h.Run(h.Cmd{Dir: src, Env: box.Env(cfg), Args: append(append(append([]string{box.GarbleBin}, cfg.Flags()...), append([]string{"reverse"}, buildFlags...)...), "."), Stdin: in.String()})
				if ll.Stdout != wantOut.String() || ll.Exit != 0 {
					bad := ""
					wls, ols := strings.SplitAfter(wantOut.String(), "\n"), strings.SplitAfter(ll.Stdout, "\n")
					for i := range wls {
						if i >= len(ols) || ols[i] != wls[i] {
							o := "<missing>"
							if i < len(ols) {
								o = ols[i]
							}
							bad = fmt.Sprintf("line %d (obfuscated text starts at byte %d of the line)\n  want ...%q\n  got  ...%q", i+1, base-i-1, tailStr(wls[i], 160), tailStr(o, 160))
							break
						}
					}
					return violationf("C04/long-line", "an obfuscated trace line preceded by %d bytes of unrelated text on the same line is not reversed like the line alone (exit %d)\n%s", base, ll.Exit, bad), labels, nontrivial, desc
				}
			}
			labels = append(labels, "long-line")
		}
	}

	// pass-through law: text without obfuscated tokens comes back byte for byte, exit status 1
	if len(c.Text) > 0 {
		text := strings.Join(c.Text, "")
		pt := h.Run(h.Cmd{Dir: src, Env: box.Env(cfg), Args: append(append(append([]string{box.GarbleBin}, cfg.Flags()...), append([]string{"reverse"}, buildFlags...)...), "."), Stdin: text})
		if pt.Stdout != text || pt.Exit != 1 {
			return violationf("C04/passthrough", "text containing nothing obfuscated must pass through byte for byte with exit status 1; got exit %d\n--- input %q\n--- output %q", pt.Exit, text, pt.Stdout), labels, nontrivial, desc
		}
		labels = append(labels, "passthrough")
		// splice: the same text with the obfuscated trace in the middle
		mixed := text + got.Stderr + text
		mx := h.Run(h.Cmd{Dir: src, Env: box.Env(cfg), Args: append(append(append([]string{box.GarbleBin}, cfg.Flags()...), append([]string{"reverse"}, buildFlags...)...), "."), Stdin: mixed})
		wantMixed := text + revRes.Stdout + text
		if !strings.HasSuffix(got.Stderr, "\n") && !strings.HasSuffix(text, "\n") {
			wantMixed = "" // token boundaries may merge: not asserted
		}
		if wantMixed != "" && (mx.Stdout != wantMixed || mx.Exit != 0) {
			return violationf("C04/splice", "a trace embedded in unrelated text is not reversed in place (exit %d)\n--- want %q\n--- got %q", mx.Exit, h.Clip(wantMixed, 1500), h.Clip(mx.Stdout, 1500)), labels, nontrivial, desc
		}
	}
	return nil, labels, nontrivial, desc
}

func tailStr(s string, n int) string {
	if len(s) > n {
		return s[len(s)-n:]
	}
	return s
}

func safeIdx(xs []string, i int) string {
	if i < len(xs) {
		return xs[i]
	}
	return "<none>"
}

func c04Avoid() map[string]bool {
	excl := os.Getenv("VERIF_EXCLUDE")
	m := map[string]bool{}
	if strings.Contains(excl, "C04/reverse-differs/created-by") {
		// goroutine creation sites ("created by" lines) are a listed finding
		m["goroutine"], m["goclosure"] = true, true
	}

	return m
}

func TestC04(t *testing.T) {
	avoid := c04Avoid()
	kinds := []string{"func", "func", "method", "ptrmethod", "generic", "genmethod", "closure", "goroutine", "deferred", "defclosure", "goclosure"}
	rc.Check(t, func(t *rapid.T) {
		var c c04Case
		c.NPkgs = rapid.IntRange(1, 3).Draw(t, "npkgs")
		n := rapid.IntRange(3, 9).Draw(t, "nframes")
		for i := 0; i < n; i++ {
			k := rapid.SampledFrom(kinds).Draw(t, fmt.Sprintf("kind%d", i))
			if avoid[k] {
				stats.Excluded("C04/reverse-differs/created-by")
				k = "func"
			}
			c.Frames = append(c.Frames, c04Frame{Kind: k, Pkg: rapid.IntRange(0, c.NPkgs-1).Draw(t, fmt.Sprintf("pkg%d", i)), File: rapid.IntRange(0, 2).Draw(t, fmt.Sprintf("file%d", i))})
		}
		// imports must not form a cycle: packages only call "downwards" (higher index) or stay
		for i := 1; i < n; i++ {
			if c.Frames[i].Pkg < c.Frames[i-1].Pkg {
				c.Frames[i].Pkg = c.Frames[i-1].Pkg
			}
		}
		c.End = rapid.SampledFrom([]string{"panic", "panic", "printstack", "caller"}).Draw(t, "end")
		if c.End == "caller" {
			// runtime.Caller reports the last four frames without naming their
			// functions, so non-call-site positions could not be masked there
			for i := max(0, n-4); i < n; i++ {
				if c.Frames[i].Kind == "deferred" || c.Frames[i].Kind == "defclosure" {
					c.Frames[i].Kind = "func"
				}
			}
		}
		c.Cfg = rapid.SampledFrom([]string{"default", "default", "literals", "seed", "tags"}).Draw(t, "cfg")
		c.Pad = rapid.IntRange(0, 3).Draw(t, "pad")
		nt := rapid.IntRange(0, 4).Draw(t, "ntext")
		for i := 0; i < nt; i++ {
			c.Text = append(c.Text, rapid.SampledFrom([]string{"plain line\n", "windows line\r\n", "\n", "tab\tseparated\tfields\n", "no newline at end", "main.go:12 is not obfuscated\n", strings.Repeat("long ", 400) + "\n", "nul\x00byte\n", "unicode ünï ∕ · runes\n", "goroutine 1 [running]:\n"}).Draw(t, fmt.Sprintf("text%d", i)))
		}
		// a line without newline is only valid as the last one
		for i := 0; i+1 < len(c.Text); i++ {
			if !strings.HasSuffix(c.Text[i], "\n") {
				c.Text[i] += "\n"
			}
		}
		v, labels, ntv, desc := c04Run(c)
		stats.Case(desc, ntv, labels, map[string]any{"frames": c.Frames, "end": c.End, "config": c.Cfg, "text_lines": len(c.Text)})
		if v != nil {
			dir := dumpViolation(v, "TestC04Replay", c, nil)
			for name, content := range c04Source(c) {
				p := filepath.Join(dir, "module", name)
				os.MkdirAll(filepath.Dir(p), 0o755)
				os.WriteFile(p, []byte(content), 0o644)
			}
			t.Fatalf("%s: %s\nreplay: %s", v.Key, h.Clip(v.Msg, 3500), dir)
		}
	})
}

func TestC04Replay(t *testing.T) {
	rc.Fixed(t, func() {
		var c c04Case
		if k := os.Getenv("VERIF_FINDING"); k != "" {
			kind := "func"
			if strings.HasSuffix(k, "created-by") {
				kind = "goroutine"
			}
			if strings.HasSuffix(k, "funclit-call") {
				kind = "defclosure"
			}
			c = c04Case{NPkgs: 2, End: "panic", Cfg: "default", Frames: []c04Frame{{Kind: "func", Pkg: 0}, {Kind: kind, Pkg: 1}, {Kind: "func", Pkg: 1, File: 1}, {Kind: "method", Pkg: 1}}}
		} else {
			loadReplay(&c)
		}
		v, labels, ntv, desc := c04Run(c)
		stats.Case(desc, ntv, labels, nil)
		if v != nil {
			if k := os.Getenv("VERIF_FINDING"); k != "" {
				v.Key = k
			}
			stats.Violate(v.Key, v.Msg, nil)
			t.Errorf("%s: %s", v.Key, v.Msg)
		}
	})
}
