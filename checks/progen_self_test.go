package checks

import (
	"fmt"
	"os"
	"path/filepath"
	"strings"
	"testing"

	"verif/h"
	"verif/progen"
)

// TestProgenSelf checks the generator itself: for every feature kind, in
// every placement and import style, the program must build and run with the
// regular toolchain, deterministically. Not a property check.
func TestProgenSelf(t *testing.T) {
	if os.Getenv("VERIF_SELFTEST") == "" {
		t.Skip("set VERIF_SELFTEST=1")
	}
	root, _ := os.MkdirTemp("", "progen-self-")
	defer h.RemoveAll(root)
	box := h.NewBox(filepath.Join(root, "box"), "")
	h.CopyTree(h.PlainBase(), box.GoCache)
	only := os.Getenv("VERIF_SELFTEST_KIND")
	for _, kind := range progen.AllKinds() {
		if only != "" && kind != only {
			continue
		}
		spec := progen.Spec{
			ModPath: "zq.example.org/x.y/mod",
			Pkgs:    []progen.PkgSpec{{Dir: "", Name: "main"}, {Dir: "internal/pkzq1w", Name: "pkzq1w"}, {Dir: "dirzq2w-x", Name: "pkzq2w"}},
			Args:    [][]string{{}, {"7", "hello"}, {"x"}},
			Exit:    true,
		}
		p := []int{0, 3, 7, 9}
		spec.Feats = []progen.Feat{
			{Kind: kind, Prov: 0, User: 0, Imp: "plain", P: p},
			{Kind: kind, Prov: 1, User: 0, Imp: "plain", P: []int{9, 1, 2, 3}},
			{Kind: kind, Prov: 2, User: 0, Imp: "dot", P: []int{5, 5, 5, 5}},
			{Kind: kind, Prov: 2, User: 1, Imp: "named", P: p},
			{Kind: kind, Prov: 2, User: 2, Imp: "plain", P: []int{1, 0, 0, 8}},
			{Kind: kind, Prov: 2, User: 1, Imp: "dot", P: []int{2, 2, 2, 2}},
		}
		if progen.CrossOnly(kind) {
			var fs []progen.Feat
			for _, f := range spec.Feats {
				if f.Prov != f.User {
					fs = append(fs, f)
				}
			}
			spec.Feats = fs
		}
		prog := progen.Render(spec)
		dir := filepath.Join(root, "m-"+kind)
		h.WriteFiles(dir, prog.Files)
		extra := []string{}
		if prog.LdFlags != "" {
			extra = append(extra, "-ldflags="+prog.LdFlags)
		}
		r := box.Go(dir, nil, append(append([]string{"build"}, extra...), "-o", filepath.Join(dir, "prog.bin"), ".")...)
		if !r.OK() {
			t.Errorf("kind %s does not build:\n%s", kind, r.Brief())
			continue
		}
		if prog.Features["tests"] {
			tr := box.Go(dir, nil, "test", "-count=1", "./...")
			if strings.Contains(tr.Stdout+tr.Stderr, "build failed") || strings.Contains(tr.Stdout+tr.Stderr, "setup failed") {
				t.Errorf("kind %s: go test does not build:\n%s", kind, tr.Brief())
			}
		}
		for _, args := range spec.Args {
			a := h.Run(h.Cmd{Dir: dir, Env: box.Env(h.Config{}), Args: append([]string{filepath.Join(dir, "prog.bin")}, args...)})
			b := h.Run(h.Cmd{Dir: dir, Env: box.Env(h.Config{}), Args: append([]string{filepath.Join(dir, "prog.bin")}, args...)})
			if a.Stdout != b.Stdout || a.Exit != b.Exit {
				t.Errorf("kind %s nondeterministic: %q vs %q", kind, a.Stdout, b.Stdout)
			}
			if a.Stderr != "" || a.Exit > 4 {
				t.Errorf("kind %s run failed: %s", kind, a.Brief())
			}
			if len(args) == 2 {
				fmt.Printf("== %s %v\n%s", kind, args, a.Stdout)
			}
		}
	}
}
