package checks

import (
	"os"
	"testing"

	"verif/stats"
)

func TestMain(m *testing.M) {
	code := m.Run()
	stats.Flush()
	os.Exit(code)
}
