// Command stubgo stands in for the go command so that garble becomes a pure
// function from its argv to the argv of the go commands it spawns.
package main

import (
	"encoding/json"
	"fmt"
	"os"
	"path/filepath"
)

func main() {
	args := os.Args[1:]
	if len(args) == 0 {
		os.Exit(2)
	}
	logf := os.Getenv("STUB_LOG")
	record := func() {
		if logf == "" {
			return
		}
		f, err := os.OpenFile(logf, os.O_APPEND|os.O_CREATE|os.O_WRONLY, 0o644)
		if err != nil {
			return
		}
		defer f.Close()
		cwd, _ := os.Getwd()
		data, _ := json.Marshal(map[string]any{"argv": args, "cwd": cwd})
		f.Write(append(data, '\n'))
	}
	switch args[0] {
	case "env":
		root := os.Getenv("STUB_GOROOT")
		json.NewEncoder(os.Stdout).Encode(map[string]string{
			"GOOS": "linux", "GOARCH": "amd64", "GOMOD": filepath.Join(os.Getenv("STUB_MODDIR"), "go.mod"),
			"GOVERSION": "go1.26.2", "GOROOT": root,
		})
	case "tool":
		// go tool buildid <file>
		fmt.Println("aaaaaaaaaaaaaaaaaaaa/bbbbbbbbbbbbbbbbbbbb/cccccccccccccccccccc/dddddddddddddddddddd")
	case "version":
		fmt.Println("go version go1.26.2 linux/amd64")
	case "list":
		record()
		dir := os.Getenv("STUB_MODDIR")
		json.NewEncoder(os.Stdout).Encode(map[string]any{
			"Name": "main", "ImportPath": "stubmod", "Dir": dir,
			"BuildID":         "eeeeeeeeeeeeeeeeeeee/ffffffffffffffffffff",
			"CompiledGoFiles": []string{"main.go"},
		})
		json.NewEncoder(os.Stdout).Encode(map[string]any{
			"Name": "runtime", "ImportPath": "runtime", "Dir": filepath.Join(dir, "rt"), "Standard": true,
			"BuildID":         "gggggggggggggggggggg/hhhhhhhhhhhhhhhhhhhh",
			"CompiledGoFiles": []string{"rt.go"},
		})
	case "build", "test", "run":
		record()
	default:
		record()
		os.Exit(3)
	}
}
