package checks

// C06 — cached builds never go stale.

import (
	"fmt"
	"os"
	"path/filepath"
	"strings"
	"testing"

	"pgregory.net/rapid"
	"verif/h"
	"verif/progen"
	"verif/rc"
	"verif/stats"
)

// A history over ONE shared (GOCACHE, GARBLE_CACHE): builds under changing
// configurations interleaved with source edits.
type c06Step struct {
	Op   string `json:"op"`   // build | edit | rebuild-same
	Cfg  string `json:"cfg"`  // for build: default | tiny | literals | seed | seed2 | literals+tiny
	Tag  bool   `json:"tag"`  // -tags=zqtag
	LdX  int    `json:"ldx"`  // -1 = no -ldflags, else index into values
	Pkg  int    `json:"pkg"`  // for edit: package index
	Kind string `json:"kind"` // for edit: literal | func | comment
}

type c06Case struct {
	Spec  progen.Spec `json:"spec"`
	Steps []c06Step   `json:"steps"`
	CF    int         `json:"cf"` // initial //garble:controlflow directive of the fixed control-flow function (index into c06Directives)
}

// c06Directives are the parameters the control-flow function of every C06
// program may carry; the "directive" edit moves to the next one. Trash blocks
// are left out: garble builds them from functions of the package's
// dependencies and rejects the build when those come from the cache (see
// DESIGN.md 10.2, "observed"), which C11 tallies as a rejection.
var c06Directives = []string{
	"flatten_passes=1 junk_jumps=2 block_splits=1",
	"flatten_passes=2 flatten_hardening=xor,delegate_table",
	"block_splits=max junk_jumps=4",
}

func c06CFFile(pkg string, dir int) string {
	return "package " + pkg + "\n\nimport \"strconv\"\n\n//garble:controlflow " + c06Directives[dir%len(c06Directives)] + "\nfunc CfZq(n int) string {\n\ts := 0\n\tfor i := 0; i < n; i++ {\n\t\tif i%3 == 0 {\n\t\t\ts += i\n\t\t} else {\n\t\t\ts ^= i << 1\n\t\t}\n\t}\n\treturn strconv.Itoa(s)\n}\n"
}

var c06LdValues = []string{"one", "two words", "k=v", ""}

// c06Cfgs are the configurations a history may visit; each has a config base,
// and the shared cache starts as the union of all of them (so that a step
// costs seconds instead of a std rebuild).
var c06Cfgs = []string{"default", "tiny", "literals", "seed", "literals+tiny", "ctrlflow", "modonly", "gg1", "gg2"}

func c06Config(name string) h.Config {
	switch name {
	case "seed2":
		return h.Config{Seed: fixedSeeds[1]} // 12 bytes
	case "seed3":
		return h.Config{Seed: "c2VlZHNlZWRYWFhY"} // 12 bytes, the first 8 equal to seed2's
	case "gg1":
		// two pattern lists over sibling packages whose paths share a string prefix (alpha / alphabet)
		return h.Config{GOGARBLE: c06Mod + "/alpha"}
	case "gg2":
		return h.Config{GOGARBLE: c06Mod + "/alpha," + c06Mod + "/alphabet"}
	}
	return configByName(name, 0)
}

// c06Mod and the directories alpha / alphabet are fixed for C06 programs, so that GOGARBLE
// lists can name individual packages.
const c06Mod = "zqsimple"

// mergedBox builds a box whose caches are the union of the config bases of
// the configurations the history visits (nil = all of c06Cfgs).
func mergedBox(parent string, visited map[string]bool) *h.Box {
	bin, hash := h.GarbleBinary()
	root, err := os.MkdirTemp(parent, "shared-")
	h.Must(err)
	b := h.NewBox(root, bin)
	first := true
	for _, name := range c06Cfgs {
		if visited != nil && !visited[name] && name != "default" {
			continue
		}
		base := h.ConfigBase(bin, hash, c06Config(name), h.LevelStd)
		if first {
			first = false
			b.FillBox(base)
			continue
		}
		for _, pair := range [][2]string{{base.GoCache, b.GoCache}, {base.GarbleCache, b.GarbleCache}} {
			r := h.Run(h.Cmd{Env: h.CleanEnv(), Args: []string{"cp", "-rn", pair[0] + "/.", pair[1] + "/"}})
			if !r.OK() {
				rc.Abort("merging caches: %s", r.Brief())
			}
		}
	}
	return b
}

type c06State struct {
	files map[string]string
	edits int
}

func (s *c06State) digest() string {
	var b strings.Builder
	for _, k := range sortedKeys(func() map[string]bool {
		m := map[string]bool{}
		for k := range s.files {
			m[k] = true
		}
		return m
	}()) {
		b.WriteString(k + "\x00" + s.files[k] + "\x00")
	}
	return h.StrSHA(b.String())
}

func c06Args(st c06Step, spec progen.Spec, out string) []string {
	args := []string{"build"}
	if st.Tag {
		args = append(args, "-tags=zqtag")
	}
	if st.LdX >= 0 {
		// an unexported string variable in the last package and one in main
		last := len(spec.Pkgs) - 1
		args = append(args, fmt.Sprintf("-ldflags=-X '%s.ldTargetZq=%s' -X 'main.ldMainZq=%s'", spec.ImportPath(last), c06LdValues[st.LdX%len(c06LdValues)], c06LdValues[(st.LdX+1)%len(c06LdValues)]))
	}
	return append(args, "-o", out, ".")
}

func c06Run(c c06Case) (v *verdict, labels []string, pattern string, nontrivial bool) {
	dir := caseDir()
	defer h.RemoveAll(dir)
	prog := progen.Render(c.Spec)
	st := &c06State{files: prog.Files}
	last := len(c.Spec.Pkgs) - 1
	// -X targets and a tag-dependent file
	st.files[filepath.Join(c.Spec.Pkgs[last].Dir, "zq_ld.go")] = "package " + c.Spec.Pkgs[last].Name + "\n\nvar ldTargetZq = \"default-target\"\n\nfunc LdTargetZq() string { return ldTargetZq }\n"
	st.files["zq_ldmain.go"] = "package main\n\nimport ldp \"" + c.Spec.ImportPath(last) + "\"\n\nvar ldMainZq = \"default-main\"\n\nfunc init() { println(\"ld\", ldMainZq, ldp.LdTargetZq(), ldp.CfZq(len(ldMainZq)+9)) }\n"
	cfRel := filepath.Join(c.Spec.Pkgs[last].Dir, "zq_cf.go")
	cfDir := c.CF
	st.files[cfRel] = c06CFFile(c.Spec.Pkgs[last].Name, cfDir)
	st.files["zq_tag_on.go"] = "//go:build zqtag\n\npackage main\n\nfunc init() { println(\"tag on\") }\n"
	st.files["zq_tag_off.go"] = "//go:build !zqtag\n\npackage main\n\nfunc init() { println(\"tag off\") }\n"
	src := filepath.Join(dir, "src")
	h.WriteFiles(src, st.files)
	visited := map[string]bool{}
	for _, s := range c.Steps {
		if s.Op == "build" {
			visited[s.Cfg] = true
		}
	}
	shared := mergedBox(dir, visited)
	refs := map[string][2]string{} // key -> sha, output
	var hist []string
	var pat []string
	seen := map[string]bool{}
	var lastBuild *c06Step
	dirty := false // an edit happened after the last build
	for i, step := range c.Steps {
		switch step.Op {
		case "edit":
			pk := c.Spec.Pkgs[step.Pkg%len(c.Spec.Pkgs)]
			st.edits++
			rel := filepath.Join(pk.Dir, "zq_edit.go")
			switch step.Kind {
			case "directive":
				// only the parameters of the //garble:controlflow directive change
				cfDir++
				rel = cfRel
				st.files[rel] = c06CFFile(c.Spec.Pkgs[last].Name, cfDir)
			case "comment":
				st.files[rel] = fmt.Sprintf("package %s\n\n// edit number %d\n", pk.Name, st.edits)
			case "func":
				st.files[rel] = fmt.Sprintf("package %s\n\nfunc editedZq%d() int { return %d }\n\nvar _ = editedZq%d\n", pk.Name, st.edits, st.edits, st.edits)
			default:
				st.files[rel] = fmt.Sprintf("package %s\n\nfunc init() { println(\"edit literal %d in %s\") }\n", pk.Name, st.edits, pk.Name)
			}
			h.WriteFiles(src, map[string]string{rel: st.files[rel]})
			hist = append(hist, fmt.Sprintf("step %d: edit %s in package %d", i, step.Kind, step.Pkg%len(c.Spec.Pkgs)))
			pat = append(pat, "edit:"+step.Kind)
			labels = append(labels, "edit:"+step.Kind)
			dirty = true
			continue
		case "rebuild-same":
			if lastBuild == nil || dirty {
				continue // something changed since the last build: not a no-change rebuild
			}
			out := filepath.Join(dir, "same.bin")
			r := shared.GarbleX(c06Config(lastBuild.Cfg), src, nil, nil, append([]string{"build", "-v"}, c06Args(*lastBuild, c.Spec, out)[1:]...)...)
			hist = append(hist, fmt.Sprintf("step %d: rebuild with nothing changed", i))
			pat = append(pat, "rebuild-same")
			labels = append(labels, "rebuild-same")
			if !r.OK() {
				return &verdict{Key: "C06/rebuild-fails", Msg: fmt.Sprintf("rebuilding with nothing changed fails\n%s\n%s", strings.Join(hist, "\n"), r.Brief())}, labels, strings.Join(pat, ","), true
			}
			for _, l := range strings.Split(r.Stderr, "\n") {
				if strings.HasPrefix(strings.TrimSpace(l), c.Spec.ModPath) {
					return &verdict{Key: "C06/rebuild-recompiles", Msg: fmt.Sprintf("rebuilding with nothing changed recompiled %q\n%s", l, strings.Join(hist, "\n"))}, labels, strings.Join(pat, ","), true
				}
			}
			continue
		}
		// build on the shared caches
		cfg := c06Config(step.Cfg)
		s := step
		lastBuild = &s
		dirty = false
		out := filepath.Join(dir, fmt.Sprintf("shared%d.bin", i))
		desc := fmt.Sprintf("step %d: garble %s %s", i, strings.Join(cfg.Flags(), " "), strings.Join(c06Args(step, c.Spec, "out")[:len(c06Args(step, c.Spec, "out"))-3], " "))
		hist = append(hist, desc)
		cls := cfg.Class()
		if step.Tag {
			cls += "+tag"
		}
		if step.LdX >= 0 {
			cls += "+ldflags"
		}
		if cfg.ControlFlow {
			cls += fmt.Sprintf("+dir%d", cfDir%len(c06Directives))
		}
		pat = append(pat, "build:"+cls)
		labels = append(labels, "build:"+cls)
		key := fmt.Sprintf("%s|%v|%d|%s", cfg.Key(), step.Tag, step.LdX, st.digest())
		if seen[cfg.Key()] {
			nontrivial = true // this configuration was built before; something intervened
		}
		seen[cfg.Key()] = true
		r := shared.Garble(cfg, src, c06Args(step, c.Spec, out)...)
		// reference: the same command on private module-cold caches
		ref, ok := refs[key]
		if !ok {
			rdir := filepath.Join(dir, fmt.Sprintf("ref%d", i))
			os.MkdirAll(rdir, 0o755)
			rbox := h.NewCaseBox(rdir, cfg, h.LevelStd)
			rout := filepath.Join(rdir, "ref.bin")
			rr := rbox.Garble(cfg, src, c06Args(step, c.Spec, rout)...)
			if !rr.OK() {
				if !r.OK() {
					labels = append(labels, "both-fail")
					h.RemoveAll(rbox.Root)
					continue // both fail alike: C01's business
				}
				return &verdict{Key: "C06/cold-fails-warm-succeeds", Msg: fmt.Sprintf("the build succeeds on the shared cache but fails from module-cold caches\n%s\n%s", strings.Join(hist, "\n"), rr.Brief())}, labels, strings.Join(pat, ","), nontrivial
			}
			run := runProg(rbox, src, rout, nil)
			ref = [2]string{h.FileSHA(rout), run.Stdout + run.Stderr}
			refs[key] = ref
			h.RemoveAll(rbox.Root)
		}
		if !r.OK() {
			return &verdict{Key: "C06/warm-fails-cold-succeeds/" + failureClass(r.Stderr), Msg: fmt.Sprintf("the build fails on the shared cache although the same command succeeds from module-cold caches\n%s\n%s", strings.Join(hist, "\n"), r.Brief())}, labels, strings.Join(pat, ","), nontrivial
		}
		run := runProg(shared, src, out, nil)
		if got := run.Stdout + run.Stderr; got != ref[1] {
			key := "C06/stale-behaviour"
			if step.LdX >= 0 && cfg.Literals {
				key = "C06/stale-ldflags-literals"
			}
			return &verdict{Key: key, Msg: fmt.Sprintf("the program built on the shared cache behaves differently from the one built from module-cold caches\n%s\n--- cold\n%s\n--- shared cache\n%s", strings.Join(hist, "\n"), h.Clip(ref[1], 1500), h.Clip(got, 1500))}, labels, strings.Join(pat, ","), nontrivial
		}
		if sha := h.FileSHA(out); sha != ref[0] {
			return &verdict{Key: "C06/stale-binary", Msg: fmt.Sprintf("the binary built on the shared cache (%s) differs from the one built from module-cold caches (%s)\n%s", sha[:16], ref[0][:16], strings.Join(hist, "\n"))}, labels, strings.Join(pat, ","), nontrivial
		}
	}
	return nil, labels, strings.Join(pat, ","), nontrivial
}

func c06Excluded(c c06Case) string {
	excl := os.Getenv("VERIF_EXCLUDE")
	if !strings.Contains(excl, "C06/stale-ldflags-literals") {
		return ""
	}
	// the listed finding needs -literals builds that differ only in -ldflags=-X
	n := 0
	for _, s := range c.Steps {
		if s.Op == "build" && c06Config(s.Cfg).Literals && s.LdX >= 0 {
			n++
		}
	}
	if n >= 1 {
		return "C06/stale-ldflags-literals"
	}
	return ""
}

// c06Revisits reports whether some build step uses a configuration that an
// earlier build step of the history used (the non-triviality rule of c06Run).
func c06Revisits(steps []c06Step) bool {
	seen := map[string]bool{}
	for _, s := range steps {
		if s.Op != "build" {
			continue
		}
		k := c06Config(s.Cfg).Key()
		if seen[k] {
			return true
		}
		seen[k] = true
	}
	return false
}

func TestC06(t *testing.T) {
	rc.Check(t, func(t *rapid.T) {
		var c c06Case
		c.Spec = progen.Draw(t, progen.Options{MinPkgs: 3, MaxPkgs: 3, MinFeats: 2, MaxFeats: 5, NoExit: true})
		c.Spec.Args = nil
		c.Spec.ModPath = c06Mod
		c.Spec.Pkgs[1].Dir, c.Spec.Pkgs[2].Dir = "alpha", "alphabet"
		c.CF = rapid.IntRange(0, len(c06Directives)-1).Draw(t, "cf")
		n := rapid.IntRange(4, rc.Pick(6, 10)).Draw(t, "nsteps")
		for i := 0; i < n; i++ {
			var s c06Step
			s.Op = rapid.SampledFrom([]string{"build", "build", "build", "edit", "rebuild-same"}).Draw(t, "op")
			if i == 0 {
				s.Op = "build"
			}
			s.Cfg = rapid.SampledFrom([]string{"default", "default", "tiny", "tiny", "literals", "literals", "seed", "seed2", "seed2", "seed3", "seed3", "literals+tiny", "ctrlflow", "ctrlflow", "ctrlflow", "modonly", "modonly", "gg1", "gg1", "gg2", "gg2"}).Draw(t, "cfg")
			// one build in three goes back to the configuration of an earlier step of this history
			back := rapid.IntRange(0, 3*max(i, 1)-1).Draw(t, "back")
			revisit := i > 0 && back < i && c.Steps[back].Op == "build"
			if revisit {
				s.Cfg = c.Steps[back].Cfg
			}
			if !progen.PendingEnabled() {
				// configurations not yet validated on the unchanged tree (DESIGN.md 10.10) fall back to the first set
				if alt, ok := map[string]string{"ctrlflow": "default", "modonly": "tiny", "gg1": "literals", "gg2": "seed"}[s.Cfg]; ok {
					s.Cfg = alt
				}
			}
			s.Tag = rapid.IntRange(0, 3).Draw(t, "tag") == 0
			s.LdX = rapid.IntRange(-2, 3).Draw(t, "ldx")
			if s.LdX < -1 {
				s.LdX = -1
			}
			s.Pkg = rapid.IntRange(0, 2).Draw(t, "pkg")
			s.Kind = rapid.SampledFrom([]string{"literal", "func", "comment", "directive"}).Draw(t, "kind")
			if s.Kind == "directive" && !progen.PendingEnabled() {
				s.Kind = "comment"
			}
			c.Steps = append(c.Steps, s)
		}
		// two long seeds with a common 8-byte prefix are only interesting together:
		// when one of them was drawn, a later build uses its sibling
		for i := range c.Steps {
			sibling := map[string]string{"seed2": "seed3", "seed3": "seed2", "gg1": "gg2", "gg2": "gg1"}[c.Steps[i].Cfg]
			if c.Steps[i].Op != "build" || sibling == "" {
				continue
			}
			for j := i + 1; j < len(c.Steps); j++ {
				if c.Steps[j].Op == "build" {
					c.Steps[j].Cfg = sibling
					break
				}
			}
			break
		}
		// Every history builds some configuration a second time: when no drawn
		// build does, a closing build of the first configuration is appended
		// (its flags are drawn either way, so that the draw sequence does not
		// depend on the outcome).
		closing := c06Step{Op: "build", Cfg: c.Steps[0].Cfg}
		closing.Tag = rapid.IntRange(0, 3).Draw(t, "closing tag") == 0
		closing.LdX = rapid.IntRange(-1, 3).Draw(t, "closing ldx")
		if !c06Revisits(c.Steps) {
			c.Steps = append(c.Steps, closing)
			stats.Label("closing-build-appended")
		}
		if k := c06Excluded(c); k != "" {
			// keep the history but take the listed combination out of it
			stats.Excluded(k)
			for i := range c.Steps {
				if c06Config(c.Steps[i].Cfg).Literals {
					c.Steps[i].LdX = -1
				}
			}
		}
		v, labels, pattern, nt := c06Run(c)
		stats.Case(pattern, nt, labels, map[string]any{"history": pattern, "steps": len(c.Steps)})
		if v != nil {
			dir := dumpViolation(v, "TestC06Replay", c, nil)
			t.Fatalf("%s: %s\nreplay: %s", v.Key, h.Clip(v.Msg, 3500), dir)
		}
	})
}

func TestC06Replay(t *testing.T) {
	rc.Fixed(t, func() {
		var c c06Case
		if k := os.Getenv("VERIF_FINDING"); k != "" {
			c = c06Case{Spec: progen.Spec{ModPath: "zqsimple", Pkgs: []progen.PkgSpec{{Name: "main"}, {Dir: "pkzq1w", Name: "pkzq1w"}, {Dir: "pkzq2w", Name: "pkzq2w"}},
				Feats: []progen.Feat{{Kind: "struct", Prov: 1, User: 0, Imp: "plain", P: []int{1, 2, 3, 4}}, {Kind: "closure", Prov: 2, User: 0, Imp: "plain", P: []int{1, 2, 3, 4}}}},
				Steps: []c06Step{{Op: "build", Cfg: "literals", LdX: -1}, {Op: "build", Cfg: "literals", LdX: 0}, {Op: "build", Cfg: "literals", LdX: 1}}}
		} else {
			loadReplay(&c)
		}
		v, labels, pattern, nt := c06Run(c)
		stats.Case(pattern, nt, labels, nil)
		if v != nil {
			stats.Violate(v.Key, v.Msg, nil)
			t.Errorf("%s: %s", v.Key, v.Msg)
		}
	})
}
