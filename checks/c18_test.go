package checks

// C18 — an interrupted build leaves nothing that breaks the next one.

import (
	"context"
	"fmt"
	"os"
	"path/filepath"
	"sync"
	"testing"
	"time"

	"pgregory.net/rapid"
	"verif/h"
	"verif/rc"
	"verif/stats"
)

type c18Case struct {
	Cache string    `json:"cache"` // module-cold | linkerless | garble-empty
	Cfg   string    `json:"cfg"`   // default | literals
	Kills []float64 `json:"kills"` // kill instants as fractions of the uninterrupted duration (successive interrupted attempts)
	P     int       `json:"p"`
}

var (
	c18Mu   sync.Mutex
	c18Refs = map[string]struct {
		sha string
		dur time.Duration
	}{}
)

func c18Prepare(dir string, c c18Case, tag string) (*h.Box, string) {
	cfg := configByName(c.Cfg, 0)
	sub := filepath.Join(dir, tag)
	os.MkdirAll(sub, 0o755)
	src := filepath.Join(sub, "src")
	h.WriteFiles(src, c17Project(1))
	box := h.NewCaseBox(sub, cfg, h.LevelStd)
	switch c.Cache {
	case "linkerless":
		h.RemoveAll(filepath.Join(box.GarbleCache, "tool"))
	case "garble-empty":
		h.RemoveAll(box.GarbleCache)
	}
	return box, src
}

// c18Reference: the uninterrupted build from the same starting caches (also measures its duration).
func c18Reference(dir string, c c18Case) (string, time.Duration) {
	key := c.Cache + "|" + c.Cfg + fmt.Sprint(c.P)
	c18Mu.Lock()
	defer c18Mu.Unlock()
	if r, ok := c18Refs[key]; ok {
		return r.sha, r.dur
	}
	box, src := c18Prepare(dir, c, "ref")
	out := filepath.Join(dir, "ref", "ref.bin")
	r := box.Garble(configByName(c.Cfg, 0), src, "build", "-p", fmt.Sprint(c.P), "-o", out, ".")
	if !r.OK() {
		rc.Abort("reference build failed: %s", r.Brief())
	}
	c18Refs[key] = struct {
		sha string
		dur time.Duration
	}{h.FileSHA(out), r.Dur}
	h.RemoveAll(box.Root)
	return c18Refs[key].sha, c18Refs[key].dur
}

func phaseOf(frac float64) string {
	switch {
	case frac < 0.15:
		return "listing"
	case frac < 0.5:
		return "compiling"
	case frac < 0.9:
		return "linker-build-or-link"
	}
	return "finishing"
}

func c18Run(c c18Case) (v *verdict, labels []string, killedAlive int) {
	dir := caseDir()
	defer h.RemoveAll(dir)
	labels = append(labels, "cache:"+c.Cache, "cfg:"+c.Cfg)
	refSha, refDur := c18Reference(dir, c)
	box, src := c18Prepare(dir, c, "work")
	cfg := configByName(c.Cfg, 0)
	out := filepath.Join(dir, "work", "out.bin")
	argv := append(append([]string{box.GarbleBin}, cfg.Flags()...), "build", "-p", fmt.Sprint(c.P), "-o", out, ".")
	var history []string
	for _, frac := range c.Kills {
		at := time.Duration(float64(refDur) * frac)
		ctx, cancel := context.WithTimeout(context.Background(), at)
		r := h.RunCtx(ctx, h.Cmd{Dir: src, Env: box.Env(cfg), Args: argv, Timeout: 20 * time.Minute})
		cancel()
		alive := r.Exit != 0 && r.Dur >= at-50*time.Millisecond
		if r.Exit == 0 {
			history = append(history, fmt.Sprintf("attempt finished before the kill at %.0f%% (%.1fs)", frac*100, at.Seconds()))
			labels = append(labels, "kill-too-late")
			os.Remove(out)
			continue
		}
		if alive {
			killedAlive++
		}
		// what was going on: the linker sources are unpacked into garble's shared temp dir
		if m, _ := filepath.Glob(filepath.Join(box.Tmp, "garble-shared*", "linker-src")); len(m) > 0 {
			labels = append(labels, "observed:linker-being-built")
		}
		labels = append(labels, "killed:"+phaseOf(frac))
		history = append(history, fmt.Sprintf("kill -9 of the process group at %.0f%% of %.1fs (%s)", frac*100, refDur.Seconds(), phaseOf(frac)))
	}
	// the rerun on the same caches
	r := h.Run(h.Cmd{Dir: src, Env: box.Env(cfg), Args: argv, Timeout: 20 * time.Minute})
	if !r.OK() {
		return &verdict{Key: "C18/rerun-fails", Msg: fmt.Sprintf("after an interrupted build the same build fails on the same caches (cache state %s, %s)\n  %s\n%s", c.Cache, cfg.Key(), joinLines(history), r.Brief())}, labels, killedAlive
	}
	if sha := h.FileSHA(out); sha != refSha {
		return &verdict{Key: "C18/rerun-binary-differs", Msg: fmt.Sprintf("after an interrupted build the rerun's binary (%s) differs from an uninterrupted build's (%s)\n  %s", sha[:16], refSha[:16], joinLines(history))}, labels, killedAlive
	}
	return nil, labels, killedAlive
}

func joinLines(ls []string) string {
	s := ""
	for i, l := range ls {
		if i > 0 {
			s += "\n  "
		}
		s += l
	}
	return s
}

func TestC18(t *testing.T) {
	rc.Check(t, func(t *rapid.T) {
		var c c18Case
		c.Cache = rapid.SampledFrom([]string{"module-cold", "linkerless", "linkerless", "garble-empty"}).Draw(t, "cache")
		c.Cfg = rapid.SampledFrom([]string{"default", "default", "literals"}).Draw(t, "cfg")
		c.P = rapid.SampledFrom([]int{1, 4, 16}).Draw(t, "p")
		n := rapid.IntRange(1, 2).Draw(t, "nkills")
		for i := 0; i < n; i++ {
			// uniform over [0, 1.05 T]; when the patched linker has to be built, that step is
			// most of the build, so half of the kills are aimed at its window
			frac := float64(rapid.Uint64().Draw(t, "instant")%1050) / 1000
			if c.Cache != "module-cold" && rapid.Bool().Draw(t, "aim") {
				frac = 0.35 + float64(rapid.Uint64().Draw(t, "window")%550)/1000
			}
			c.Kills = append(c.Kills, frac)
		}
		v, labels, alive := c18Run(c)
		ph := ""
		for _, k := range c.Kills {
			ph += phaseOf(k) + "+"
		}
		stats.Case(stats.Desc(c.Cache, c.Cfg, ph), alive > 0, labels, map[string]any{"cache": c.Cache, "config": c.Cfg, "kill_fractions": c.Kills, "p": c.P})
		if v != nil {
			dir := dumpViolation(v, "TestC18Replay", c, nil)
			t.Fatalf("%s: %s\nreplay: %s", v.Key, h.Clip(v.Msg, 3500), dir)
		}
	})
}

func TestC18Replay(t *testing.T) {
	rc.Fixed(t, func() {
		var c c18Case
		loadReplay(&c)
		for rep := 0; rep < 3; rep++ {
			v, labels, alive := c18Run(c)
			stats.Case(fmt.Sprint("replay", rep), alive > 0, labels, nil)
			if v != nil {
				stats.Violate(v.Key, v.Msg, nil)
				t.Errorf("%s: %s", v.Key, v.Msg)
				return
			}
		}
	})
}
