package checks

// C17 — concurrent garble processes never interfere.

import (
	"fmt"
	"os"
	"path/filepath"
	"sort"
	"strings"
	"sync"
	"sync/atomic"
	"testing"
	"time"

	"pgregory.net/rapid"
	"verif/h"
	"verif/rc"
	"verif/stats"
)

type c17Proc struct {
	Project int    `json:"project"`  // which of the three small projects
	Cfg     string `json:"cfg"`      // default | tiny | literals
	P       int    `json:"p"`        // -p
	DelayMs int    `json:"delay_ms"` // start offset
	Stream  bool   `json:"stream"`   // repeats its build back to back until the one-shot processes are done
}

type c17Case struct {
	Cache string    `json:"cache"` // warm | linkerless | garble-empty
	Procs []c17Proc `json:"procs"`
}

func c17Project(i int) map[string]string {
	return map[string]string{
		"go.mod":     fmt.Sprintf("module zqsimple/conc%d\n\ngo 1.26\n", i),
		"main.go":    fmt.Sprintf("package main\n\nimport (\n\t\"fmt\"\n\t\"os\"\n\n\t\"zqsimple/conc%d/lib\"\n)\n\nfunc main() {\n\tfmt.Fprintln(os.Stdout, lib.Value%d(), len(os.Args))\n}\n", i, i),
		"lib/lib.go": fmt.Sprintf("package lib\n\nimport \"strings\"\n\ntype rec%d struct{ name string }\n\nfunc Value%d() string { return strings.Repeat(rec%d{\"p%d\"}.name, %d) }\n", i, i, i, i, i+1),
	}
}

var (
	c17RefMu sync.Mutex
	c17Refs  = map[string]string{}
)

func c17Reference(dir string, pr c17Proc) string {
	key := fmt.Sprintf("%d|%s", pr.Project, pr.Cfg)
	c17RefMu.Lock()
	defer c17RefMu.Unlock()
	if s, ok := c17Refs[key]; ok {
		return s
	}
	rdir := filepath.Join(dir, "ref-"+strings.ReplaceAll(key, "|", "-"))
	src := filepath.Join(rdir, "src")
	h.WriteFiles(src, c17Project(pr.Project))
	cfg := configByName(pr.Cfg, 0)
	box := h.NewCaseBox(rdir, cfg, h.LevelStd)
	out := filepath.Join(rdir, "ref.bin")
	if r := box.Garble(cfg, src, "build", "-o", out, "."); !r.OK() {
		rc.Abort("reference build failed: %s", r.Brief())
	}
	c17Refs[key] = h.FileSHA(out)
	h.RemoveAll(box.Root)
	return c17Refs[key]
}

func c17Run(c c17Case) (v *verdict, labels []string, overlapped bool) {
	dir := caseDir()
	defer h.RemoveAll(dir)
	labels = append(labels, "cache:"+c.Cache, fmt.Sprintf("procs:%d", len(c.Procs)))
	// references first (isolated, sequential)
	refs := make([]string, len(c.Procs))
	for i, pr := range c.Procs {
		refs[i] = c17Reference(dir, pr)
	}
	// one shared box holding the union of the configurations' warm caches
	shared := mergedBox(dir, map[string]bool{"default": true, "tiny": true, "literals": true, "seed": true, "literals+tiny": true})
	switch c.Cache {
	case "linkerless":
		h.RemoveAll(filepath.Join(shared.GarbleCache, "tool"))
	case "garble-empty":
		h.RemoveAll(shared.GarbleCache)
	}
	srcs := make([]string, len(c.Procs))
	for i, pr := range c.Procs {
		// identical commands of one project share the source directory, like two terminals would
		srcs[i] = filepath.Join(dir, fmt.Sprintf("proj%d", pr.Project))
		h.WriteFiles(srcs[i], c17Project(pr.Project))
	}
	type outcome struct {
		res        h.Result
		start, end time.Time
		sha        string
		runs       int
	}
	outs := make([]outcome, len(c.Procs))
	var wg, oneShots sync.WaitGroup
	var oneShotsDone atomic.Bool
	t0 := time.Now()
	for _, pr := range c.Procs {
		if !pr.Stream {
			oneShots.Add(1)
		}
	}
	go func() { oneShots.Wait(); oneShotsDone.Store(true) }()
	for i, pr := range c.Procs {
		wg.Add(1)
		go func(i int, pr c17Proc) {
			defer wg.Done()
			if !pr.Stream {
				defer oneShots.Done()
			}
			time.Sleep(time.Duration(pr.DelayMs) * time.Millisecond)
			cfg := configByName(pr.Cfg, 0)
			out := filepath.Join(dir, fmt.Sprintf("out%d.bin", i))
			outs[i].start = time.Now()
			for {
				os.Remove(out)
				res := shared.Garble(cfg, srcs[i], "build", "-p", fmt.Sprint(pr.P), "-o", out, ".")
				outs[i].runs++
				outs[i].res = res
				outs[i].sha = h.FileSHA(out)
				// a stream keeps building until the one-shot processes are done (or it fails)
				if !pr.Stream || !res.OK() || outs[i].sha != refs[i] || oneShotsDone.Load() || outs[i].runs >= 40 {
					break
				}
			}
			outs[i].end = time.Now()
		}(i, pr)
	}
	wg.Wait()
	for i := range outs {
		for j := range outs {
			if i < j && outs[i].start.Before(outs[j].end) && outs[j].start.Before(outs[i].end) {
				overlapped = true
			}
		}
	}
	var timeline []string
	for i, o := range outs {
		timeline = append(timeline, fmt.Sprintf("  #%d project %d %s -p %d stream=%v: started +%.1fs, ran %.1fs (%d builds), last exit %d", i, c.Procs[i].Project, c.Procs[i].Cfg, c.Procs[i].P, c.Procs[i].Stream, o.start.Sub(t0).Seconds(), o.end.Sub(o.start).Seconds(), o.runs, o.res.Exit))
	}
	for i, o := range outs {
		if !o.res.OK() {
			return &verdict{Key: "C17/concurrent-build-fails", Msg: fmt.Sprintf("a build that succeeds alone fails when run concurrently (shared cache state %s)\n%s\n--- process #%d\n%s", c.Cache, strings.Join(timeline, "\n"), i, o.res.Brief())}, labels, overlapped
		}
		if o.sha != refs[i] {
			return &verdict{Key: "C17/concurrent-binary-differs", Msg: fmt.Sprintf("process #%d produced a binary (%s) that differs from the one it produces alone (%s) (shared cache state %s)\n%s", i, o.sha[:16], refs[i][:16], c.Cache, strings.Join(timeline, "\n"))}, labels, overlapped
		}
	}
	if ents, _ := os.ReadDir(shared.Tmp); len(ents) > 0 {
		labels = append(labels, "tmp-leftovers")
	}
	return nil, labels, overlapped
}

func TestC17(t *testing.T) {
	rc.Check(t, func(t *rapid.T) {
		var c c17Case
		c.Cache = rapid.SampledFrom([]string{"warm", "linkerless", "linkerless", "garble-empty"}).Draw(t, "cache")
		n := rapid.IntRange(2, rc.Pick(4, 6)).Draw(t, "nprocs")
		for i := 0; i < n; i++ {
			c.Procs = append(c.Procs, c17Proc{
				Project: rapid.IntRange(0, 2).Draw(t, "project"),
				Cfg:     rapid.SampledFrom([]string{"default", "default", "tiny", "literals"}).Draw(t, "cfg"),
				P:       rapid.SampledFrom([]int{1, 2, 4, 16}).Draw(t, "p"),
				DelayMs: rapid.SampledFrom([]int{0, 0, 0, 100, 500, 800, 3000, 8000, 15000}).Draw(t, "delay"),
			})
		}
		// when the shared cache has no patched linker, add streams of later builds: they keep
		// linking while the queued early builds finish building and installing the linker
		if c.Cache != "warm" {
			ns := rapid.IntRange(0, 3).Draw(t, "nstreams")
			for i := 0; i < ns; i++ {
				c.Procs = append(c.Procs, c17Proc{
					Project: rapid.IntRange(0, 2).Draw(t, "sproject"),
					Cfg:     rapid.SampledFrom([]string{"default", "tiny"}).Draw(t, "scfg"),
					P:       rapid.SampledFrom([]int{2, 4}).Draw(t, "sp"),
					DelayMs: rapid.SampledFrom([]int{2000, 5000, 10000}).Draw(t, "sdelay"),
					Stream:  true,
				})
			}
		}
		v, labels, overlapped := c17Run(c)
		var mix []string
		for _, p := range c.Procs {
			mix = append(mix, fmt.Sprintf("%d/%s/p%d/%v", p.Project, p.Cfg, p.P, p.Stream))
		}
		sort.Strings(mix)
		stats.Case(stats.Desc(c.Cache, strings.Join(mix, "+")), overlapped, labels, map[string]any{"cache": c.Cache, "processes": c.Procs})
		if v != nil {
			dir := dumpViolation(v, "TestC17Replay", c, nil)
			t.Fatalf("%s: %s\nreplay: %s", v.Key, h.Clip(v.Msg, 3500), dir)
		}
	})
}

func TestC17Replay(t *testing.T) {
	rc.Fixed(t, func() {
		var c c17Case
		loadReplay(&c)
		// interleavings are sampled, not controlled: repeat the trial
		for rep := 0; rep < 4; rep++ {
			v, labels, overlapped := c17Run(c)
			stats.Case(fmt.Sprint("replay", rep), overlapped, labels, nil)
			if v != nil {
				stats.Violate(v.Key, v.Msg, nil)
				t.Errorf("%s: %s", v.Key, v.Msg)
				return
			}
		}
	})
}
