package checks

// C13 — garble map, the build and garble reverse agree on every name.

import (
	"encoding/json"
	"fmt"
	"go/types"
	"os"
	"path/filepath"
	"sort"
	"strings"
	"testing"

	"golang.org/x/tools/go/packages"
	"golang.org/x/tools/go/types/objectpath"
	"pgregory.net/rapid"
	"verif/h"
	"verif/progen"
	"verif/rc"
	"verif/stats"
)

type c13Case struct {
	Spec progen.Spec `json:"spec"`
	Cfg  h.Config    `json:"cfg"`
	Tags bool        `json:"tags"`
}

type mapPkg struct {
	Path    string            `json:"path"`
	Objects map[string]string `json:"objects"`
}

// pkgDirs maps the module's import paths to directories relative to the module root.
func pkgDirs(s progen.Spec) map[string]string {
	m := map[string]string{}
	for i, p := range s.Pkgs {
		m[s.ImportPath(i)] = p.Dir
	}
	return m
}

// loadTyped type-checks the original module.
func loadTyped(box *h.Box, src string, flags []string) []*packages.Package {
	cfg := &packages.Config{
		Mode:       packages.NeedName | packages.NeedFiles | packages.NeedSyntax | packages.NeedTypes | packages.NeedTypesInfo | packages.NeedImports | packages.NeedCompiledGoFiles, // dependencies come from export data
		Dir:        src,
		Env:        box.Env(h.Config{}),
		BuildFlags: flags,
	}
	pkgs, err := packages.Load(cfg, "./...")
	if err != nil {
		rc.Abort("packages.Load: %v", err)
	}
	for _, p := range pkgs {
		if len(p.Errors) > 0 {
			rc.Abort("type-checking the generated module: %v", p.Errors)
		}
	}
	sort.Slice(pkgs, func(i, j int) bool { return pkgs[i].PkgPath < pkgs[j].PkgPath })
	return pkgs
}

func objKind(o types.Object) string {
	switch v := o.(type) {
	case *types.Func:
		if v.Signature().Recv() != nil {
			if types.IsInterface(v.Signature().Recv().Type()) {
				return "ifacemethod"
			}
			return "method"
		}
		return "func"
	case *types.TypeName:
		return "type"
	case *types.Var:
		if v.IsField() {
			return "field"
		}
		return "var"
	case *types.Const:
		return "const"
	}
	return "other"
}

func c13Run(c c13Case) (v *verdict, prog *progen.Program, labels []string, descs []string) {
	dir := caseDir()
	defer h.RemoveAll(dir)
	prog = progen.Render(c.Spec)
	src := filepath.Join(dir, "src")
	h.WriteFiles(src, prog.Files)
	var flags []string
	if c.Tags {
		flags = []string{"-tags=zqtag"}
		labels = append(labels, "tags")
	}
	labels = append(labels, "cfg:"+c.Cfg.Class())
	box := h.NewCaseBox(dir, c.Cfg, h.LevelStd)
	dd := filepath.Join(dir, "debugdir")
	g := box.GarbleX(c.Cfg, src, []string{"-debugdir=" + dd}, nil, append(append([]string{"build"}, flags...), "-o", filepath.Join(dir, "out.bin"), ".")...)
	if !g.OK() {
		stats.Note("garble build failed in a C13 case (judged by C01): %s", h.Clip(g.Stderr, 300))
		return nil, prog, append(labels, "garble-build-failed"), nil
	}
	nm, err := h.ExtractNames(src, dd, pkgDirs(c.Spec))
	if err != nil {
		rc.Abort("pairing original and garbled sources: %v", err)
	}
	mr := box.Garble(c.Cfg, src, append(append([]string{"map"}, flags...), "./...")...)
	if !mr.OK() {
		return &verdict{Key: "C13/map-fails", Msg: "garble map fails on a module that garble build accepts:\n" + mr.Brief()}, prog, labels, nil
	}
	listed := map[string]mapPkg{}
	if err := json.Unmarshal([]byte(mr.Stdout), &listed); err != nil {
		return violationf("C13/map-output", "garble map does not print valid JSON: %v\n%s", err, h.Clip(mr.Stdout, 500)), prog, labels, nil
	}
	modOnly := c.Cfg.GOGARBLE != ""
	_ = modOnly
	pkgs := loadTyped(box, src, flags)
	dirs := pkgDirs(c.Spec)
	var reverseIn, reverseWant []string
	kindsSeen := map[string]bool{}
	for _, p := range pkgs {
		rel, ours := dirs[p.PkgPath]
		if !ours {
			continue
		}
		lp, isListed := listed[p.PkgPath]
		if !isListed {
			return violationf("C13/package-missing", "garble map does not list package %s, which the build obfuscated", p.PkgPath), prog, labels, descs
		}
		// the import path the build uses for this package
		if bp, ok := nm.Imports[p.PkgPath]; ok && bp != lp.Path {
			return violationf("C13/path-differs", "garble map says package %s is imported as %q, the build's sources import it as %q", p.PkgPath, lp.Path, bp), prog, labels, descs
		}
		matched := map[string]bool{}
		// every object defined in the package
		var defs []types.Object
		for _, o := range p.TypesInfo.Defs {
			if o != nil {
				defs = append(defs, o)
			}
		}
		sort.Slice(defs, func(i, j int) bool { return defs[i].Pos() < defs[j].Pos() })
		var enc objectpath.Encoder
		for _, o := range defs {
			if parent := o.Parent(); parent != nil && parent != p.Types.Scope() {
				continue
			}
			path, err := enc.For(o)
			if err != nil {
				continue // not reachable through the package's API
			}
			position := p.Fset.Position(o.Pos())
			relFile := filepath.Join(rel, filepath.Base(position.Filename))
			buildName, ok := nm.ByPos[fmt.Sprintf("%s:%d", relFile, position.Offset)]
			if !ok {
				continue
			}
			kind := objKind(o)
			mapName, inMap := lp.Objects[string(path)]
			if buildName == o.Name() {
				// the build kept the name: nothing to agree on
				continue
			}
			kindsSeen[kind] = true
			descs = append(descs, stats.Desc(kind, fmt.Sprint(o.Exported()), c.Cfg.Class()))
			if !inMap {
				return violationf("C13/missing-in-map/"+kind, "the build renames %s %s.%s (objectpath %q) to %q, but garble map does not list it", kind, p.PkgPath, o.Name(), path, buildName), prog, labels, descs
			}
			matched[string(path)] = true
			if mapName != buildName {
				return violationf("C13/name-differs/"+kind, "%s %s.%s (objectpath %q): garble map says %q, the build uses %q", kind, p.PkgPath, o.Name(), path, mapName, buildName), prog, labels, descs
			}
			// reverse must bring the obfuscated name back
			if kind == "func" || kind == "type" || kind == "field" || kind == "method" || kind == "var" || kind == "ifacemethod" {
				reverseIn = append(reverseIn, fmt.Sprintf("%s %s.%s", kind, lp.Path, mapName))
				reverseWant = append(reverseWant, fmt.Sprintf("%s %s.%s", kind, revPath(p.PkgPath, lp.Path), o.Name()))
			}
		}
		// entries the loop above did not reach must still decode and agree
		var rest []string
		for path := range lp.Objects {
			if !matched[path] {
				rest = append(rest, path)
			}
		}
		sort.Strings(rest)
		for _, path := range rest {
			o, err := objectpath.Object(p.Types, objectpath.Path(path))
			if err != nil {
				return violationf("C13/undecodable-path", "garble map lists %s %q, which does not decode against the package: %v", p.PkgPath, path, err), prog, labels, descs
			}
			position := p.Fset.Position(o.Pos())
			relFile := filepath.Join(rel, filepath.Base(position.Filename))
			if buildName, ok := nm.ByPos[fmt.Sprintf("%s:%d", relFile, position.Offset)]; ok && buildName != lp.Objects[path] {
				return violationf("C13/name-differs/"+objKind(o), "%s %s.%s (objectpath %q): garble map says %q, the build uses %q", objKind(o), p.PkgPath, o.Name(), path, lp.Objects[path], buildName), prog, labels, descs
			}
		}
	}
	for k := range kindsSeen {
		labels = append(labels, "kind:"+k)
	}
	sort.Strings(labels)
	// (iii) garble reverse maps each listed name back
	if len(reverseIn) > 0 {
		in := strings.Join(reverseIn, "\n") + "\n"
		rv := h.Run(h.Cmd{Dir: src, Env: box.Env(c.Cfg), Args: append(append(append([]string{box.GarbleBin}, c.Cfg.Flags()...), append([]string{"reverse"}, flags...)...), "."), Stdin: in})
		if rv.Exit != 0 {
			return violationf("C13/reverse-fails", "garble reverse exits %d on a list of obfuscated names:\n%s", rv.Exit, rv.Brief()), prog, labels, descs
		}
		got := strings.Split(strings.TrimSuffix(rv.Stdout, "\n"), "\n")
		excl := os.Getenv("VERIF_EXCLUDE")
		for i, w := range reverseWant {
			if i >= len(got) || got[i] != w {
				gline := "<missing>"
				if i < len(got) {
					gline = got[i]
				}
				kind := strings.Fields(w)[0]
				key := "C13/reverse-misses/" + kind
				if strings.Contains(excl, key) {
					stats.Excluded(key)
					continue
				}
				return violationf(key, "garble reverse does not map a name listed by garble map back to its original:\n  obfuscated: %s\n  expected:   %s\n  got:        %s", reverseIn[i], w, gline), prog, labels, descs
			}
		}
		labels = append(labels, "reverse-checked")
	}
	return nil, prog, labels, descs
}

// revPath: package main is always "main" in obfuscated text; reverse cannot know better.
func revPath(orig, obf string) string {
	if obf == "main" {
		return "main"
	}
	return orig
}

func TestC13(t *testing.T) {
	rc.Check(t, func(t *rapid.T) {
		var c c13Case
		c.Spec = progen.Draw(t, progen.Options{MinPkgs: 2, MaxPkgs: 4, MinFeats: 3, MaxFeats: 8, NoExit: true})
		c.Spec.Args = nil
		c.Cfg = configByName(rapid.SampledFrom([]string{"default", "seed", "seedlong", "tiny", "modonly"}).Draw(t, "cfg"), 0)
		v, prog, labels, descs := c13Run(c)
		kinds := map[string]bool{}
		for _, d := range descs {
			kinds[strings.SplitN(d, "|", 2)[0]] = true
		}
		nontrivial := len(descs) >= 15 && len(kinds) >= 4
		stats.Case(stats.Desc(stats.SortedSet(kinds), c.Cfg.Class(), prog.FeatureSet()), nontrivial, labels,
			map[string]any{"features": prog.FeatureSet(), "config": c.Cfg.Key(), "objects_compared": len(descs), "kinds": sortedKeys(kinds)})
		stats.LabelN("objects-compared", len(descs))
		if v != nil {
			dir := dumpViolation(v, "TestC13Replay", c, prog)
			t.Fatalf("%s: %s\nreplay: %s", v.Key, h.Clip(v.Msg, 3000), dir)
		}
	})
}

func TestC13Replay(t *testing.T) {
	rc.Fixed(t, func() {
		var c c13Case
		switch k := os.Getenv("VERIF_FINDING"); {
		case k == "":
			loadReplay(&c)
		default:
			// reverse has no entry for package-level variables and interface methods
			os.Setenv("VERIF_EXCLUDE", "")
			c = c13Case{Cfg: h.Config{}, Spec: progen.Spec{ModPath: "zqsimple", Pkgs: []progen.PkgSpec{{Name: "main"}, {Dir: "pkzq1w", Name: "pkzq1w"}},
				Feats: []progen.Feat{{Kind: "iface", Prov: 1, User: 0, Imp: "plain", P: []int{1, 2, 3, 4}}, {Kind: "errors", Prov: 1, User: 0, Imp: "plain", P: []int{1, 2, 3, 4}}, {Kind: "embed", Prov: 1, User: 0, Imp: "plain", P: []int{1, 2, 3, 4}}}}}
		}
		v, _, labels, descs := c13Run(c)
		stats.Case("replay", len(descs) > 0, labels, nil)
		if v != nil {
			if k := os.Getenv("VERIF_FINDING"); k != "" {
				v.Key = k
			}
			stats.Violate(v.Key, v.Msg, nil)
			t.Errorf("%s: %s", v.Key, v.Msg)
		}
	})
}
