package checks

// C02 — the binary carries no original names, paths, positions or build metadata.

import (
	"fmt"
	"os"
	"path/filepath"
	"strings"
	"testing"

	"pgregory.net/rapid"
	"verif/h"
	"verif/progen"
	"verif/rc"
	"verif/stats"
)

type c02Case struct {
	Spec         progen.Spec `json:"spec"`
	Cfg          h.Config    `json:"cfg"`
	TmpInsideSrc bool        `json:"tmp_inside_src"`
	DirStyle     int         `json:"dir_style"`
}

func c02Kinds() []string {
	ks := progen.DefaultKinds()
	ks = append(ks, progen.KindsNeeding("linkname")...)
	ks = append(ks, progen.KindsNeeding("asm")...)
	ks = append(ks, progen.KindsNeeding("ldflags")...)
	return ks
}

// mustVanishKinds are the identifier kinds the statement lists as obfuscatable.
var mustVanishKinds = map[string]bool{"type": true, "func": true, "var": true, "field": true, "method": true, "iface": true, "pkg": true, "dir": true, "file": true, "const": true}

func c02Run(c c02Case) (v *verdict, prog *progen.Program, labels []string, descs []string) {
	dir := caseDir()
	defer h.RemoveAll(dir)
	prog = progen.Render(c.Spec)
	srcMarker := []string{"ZqSrcDir7781w", "zq src.dir-9w", "ZqSrcDir7781w/nested.zq/deeper"}[c.DirStyle%3]
	src := filepath.Join(dir, srcMarker)
	h.WriteFiles(src, prog.Files)
	labels = append(labels, "cfg:"+c.Cfg.Class())
	plain := sharedPlain()
	var extra []string
	if prog.LdFlags != "" {
		extra = append(extra, "-ldflags="+prog.LdFlags)
	}
	box := h.NewCaseBox(dir, c.Cfg, h.LevelStd)
	tmpMarker := "ZqTmpDir5532w"
	if c.TmpInsideSrc {
		box.Tmp = filepath.Join(src, tmpHostDir(c.Spec), tmpMarker)
		labels = append(labels, "tmp-inside-src")
	} else {
		box.Tmp = filepath.Join(dir, tmpMarker)
	}
	h.Must(os.MkdirAll(box.Tmp, 0o755))

	// positive control: the regular build, without -trimpath
	plainBin := filepath.Join(dir, "plain.bin")
	r := plain.Go(src, nil, append(append([]string{"build"}, extra...), "-o", plainBin, ".")...)
	if !r.OK() {
		rc.Abort("generated program does not build with the regular toolchain:\n%s", r.Brief())
	}
	garbledBin := filepath.Join(dir, "garbled.bin")
	g := box.Garble(c.Cfg, src, append(append([]string{"build"}, extra...), "-o", garbledBin, ".")...)
	if !g.OK() {
		// a build failure is C01's business; here it only means nothing to scan
		labels = append(labels, "garble-build-failed")
		stats.Note("garble build failed in a C02 case (judged by C01): %s", h.Clip(g.Stderr, 300))
		return nil, prog, labels, nil
	}

	// 1. identifiers, package names, directories, files
	var needles []string
	info := map[string]progen.NameInfo{}
	for _, n := range prog.Names {
		needles = append(needles, n.Name)
		info[n.Name] = n
	}
	inPlain := h.ScanBinary(plainBin, needles)
	inGarbled := h.ScanBinary(garbledBin, needles)
	var leaks []string
	for _, n := range prog.Names {
		if !mustVanishKinds[n.Kind] || n.MayRemain {
			if n.MayRemain {
				labels = append(labels, "exception:"+n.Kind)
			}
			continue
		}
		if !inPlain[n.Name] {
			labels = append(labels, "not-in-plain:"+n.Kind)
			continue // absence would prove nothing
		}
		exp := "unexported"
		if n.Exported {
			exp = "exported"
		}
		descs = append(descs, stats.Desc(n.Kind, exp, n.Feat, c.Cfg.Class()))
		labels = append(labels, "scored:"+n.Kind)
		if inGarbled[n.Name] {
			leaks = append(leaks, fmt.Sprintf("%s %q (feature %s, package %d)", n.Kind, n.Name, n.Feat, n.Pkg))
		}
	}
	if len(leaks) > 0 {
		kind := strings.Fields(leaks[0])[0]
		return &verdict{Key: "C02/name-leak/" + kind, Msg: fmt.Sprintf("garble %s: the binary still contains original names that the regular binary also contains and no documented exception covers:\n  %s", c.Cfg.Key(), strings.Join(leaks, "\n  "))}, prog, labels, descs
	}

	// 2. paths
	pathNeedles := []string{c.Spec.ModPath, srcMarker, tmpMarker, "garble-shared", box.GoCache, box.GarbleCache, dir}
	for i := range c.Spec.Pkgs {
		if i > 0 {
			pathNeedles = append(pathNeedles, c.Spec.ImportPath(i))
		}
	}
	pPlain := h.ScanBinary(plainBin, pathNeedles)
	pGarbled := h.ScanBinary(garbledBin, pathNeedles)
	for _, n := range pathNeedles {
		if pGarbled[n] {
			return &verdict{Key: "C02/path-leak", Msg: fmt.Sprintf("garble %s: the binary contains the path %q (regular binary contains it: %v)", c.Cfg.Key(), n, pPlain[n])}, prog, labels, descs
		}
		if pPlain[n] {
			descs = append(descs, stats.Desc("path", n[:min(len(n), 12)], c.Cfg.Class()))
			labels = append(labels, "scored:path")
		}
	}

	// 3. build metadata
	vm := box.GoVersionM(garbledBin)
	vmPlain := box.GoVersionM(plainBin)
	if !strings.Contains(vmPlain.Stdout, "go1.26") || !strings.Contains(vmPlain.Stdout, "\tpath\t") {
		rc.Abort("positive control failed: go version -m of the regular binary: %s", vmPlain.Brief())
	}
	metaBad := ""
	switch {
	case strings.Contains(vm.Stdout, "go1."):
		metaBad = "go version -m reports a Go version"
	case strings.Contains(vm.Stdout, "\tpath\t") || strings.Contains(vm.Stdout, "\tmod\t") || strings.Contains(vm.Stdout, "\tbuild\t") || strings.Contains(vm.Stdout, "\tdep\t"):
		metaBad = "go version -m reports module or build information"
	}
	if id := box.GoBuildID(garbledBin); id != "" {
		metaBad = "go tool buildid reports a build ID: " + id
	}
	if box.GoBuildID(plainBin) == "" {
		rc.Abort("positive control failed: the regular binary has no build ID")
	}
	verNeedles := []string{h.GoVersion, "go1.26"}
	if hit := h.ScanBinary(garbledBin, verNeedles); hit[h.GoVersion] || hit["go1.26"] {
		metaBad = "the Go version string is present in the binary"
	}
	for _, s := range h.ELFSections(garbledBin) {
		if s.Size == 0 {
			continue
		}
		if s.Name == ".symtab" || s.Name == ".strtab" || strings.HasPrefix(s.Name, ".debug_") || strings.HasPrefix(s.Name, ".zdebug_") || s.Name == ".gosymtab" || s.Name == ".note.go.buildid" {
			metaBad = fmt.Sprintf("ELF section %s has %d bytes", s.Name, s.Size)
		}
	}
	if n := h.ELFSymbolCount(garbledBin); n > 0 {
		metaBad = fmt.Sprintf("the ELF symbol table has %d entries", n)
	}
	descs = append(descs, stats.Desc("metadata", c.Cfg.Class()))
	if metaBad != "" {
		return &verdict{Key: "C02/metadata", Msg: fmt.Sprintf("garble %s: %s\ngo version -m: %s", c.Cfg.Key(), metaBad, h.Clip(vm.Stdout+vm.Stderr, 600))}, prog, labels, descs
	}
	return nil, prog, labels, descs
}

func TestC02(t *testing.T) {
	rc.Check(t, func(t *rapid.T) {
		var c c02Case
		c.Spec = progen.Draw(t, progen.Options{Kinds: c02Kinds(), MinPkgs: 2, MaxPkgs: 5, MinFeats: 3, MaxFeats: 9, NoExit: true})
		c.Spec.Args = nil
		c.Cfg = drawConfig(t, "cfg", true)
		c.TmpInsideSrc = rapid.IntRange(0, 3).Draw(t, "tmpinside") == 0
		c.DirStyle = rapid.IntRange(0, 2).Draw(t, "dirstyle")
		v, prog, labels, descs := c02Run(c)
		// one evaluation per scored marker; the program as a whole is the sample
		if len(descs) == 0 {
			stats.Case("none", false, labels, nil)
		}
		for i, d := range descs {
			var ls []string
			if i == 0 {
				ls = labels
			}
			stats.Case(d, true, ls, nil)
		}
		stats.Sample(map[string]any{"features": prog.FeatureSet(), "config": c.Cfg.Key(), "names_scanned": len(prog.Names), "scored": len(descs)})
		if v != nil {
			dir := dumpViolation(v, "TestC02Replay", c, prog)
			t.Fatalf("%s: %s\nreplay: %s", v.Key, h.Clip(v.Msg, 3000), dir)
		}
	})
}

func TestC02Replay(t *testing.T) {
	rc.Fixed(t, func() {
		var c c02Case
		loadReplay(&c)
		v, _, labels, descs := c02Run(c)
		for _, d := range descs {
			stats.Case(d, true, nil, nil)
		}
		stats.Case("replay", true, labels, nil)
		if v != nil {
			stats.Violate(v.Key, v.Msg, nil)
			t.Errorf("%s: %s", v.Key, v.Msg)
		}
	})
}
