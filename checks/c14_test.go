package checks

// C14 — GOGARBLE selects exactly which packages are obfuscated.

import (
	"fmt"
	"os"
	"path"
	"path/filepath"
	"strings"
	"testing"

	"pgregory.net/rapid"
	"verif/h"
	"verif/progen"
	"verif/rc"
	"verif/stats"
)

const c14Mod = "example.com/zqmod"

// Fixed package layout: siblings sharing a string prefix (alpha / alphabet),
// a nested package, and an unrelated one. Package i may import package j > i.
var c14Pkgs = []progen.PkgSpec{
	{Dir: "", Name: "main"},
	{Dir: "alpha", Name: "pkzq1w"},
	{Dir: "alpha/inner", Name: "pkzq2w"},
	{Dir: "alphabet", Name: "pkzq3w"},
	{Dir: "beta", Name: "pkzq4w"},
}

// The pattern lists explored (each is its own build configuration, so the
// set is fixed; the quick tier uses the first six).
var c14Patterns = []string{
	c14Mod + "/alpha",
	c14Mod + "/alphabet," + c14Mod + "/beta",
	c14Mod + "/al*",
	c14Mod + "/nomatch",
	c14Mod + "/alpha/inner",
	c14Mod + "/beta,strings",
	c14Mod,
	"example.com",
	"*/zqmod/alpha",
	c14Mod + "/alpha/inner," + c14Mod + "/nomatch",
	"*",
	"example.com/zqmo",
}

// refMatch is an independent implementation of the documented GOPRIVATE-style
// rule: a comma-separated list of glob patterns (path.Match syntax), each of
// which matches a prefix of the import path made of as many path elements as
// the pattern has.
func refMatch(globs, target string) bool {
	for _, glob := range strings.Split(globs, ",") {
		if glob == "" {
			continue
		}
		n := strings.Count(glob, "/") + 1
		elems := strings.Split(target, "/")
		if len(elems) < n {
			continue
		}
		prefix := strings.Join(elems[:n], "/")
		if ok, _ := path.Match(glob, prefix); ok {
			return true
		}
	}
	return false
}

type c14Case struct {
	Feats   []progen.Feat `json:"feats"`
	Pattern int           `json:"pattern"`
	// Degenerate is a second GOGARBLE value that selects nothing ("" = not tried)
	Degenerate string   `json:"degenerate,omitempty"`
	Args       []string `json:"args"`
}

func (c c14Case) spec() progen.Spec {
	return progen.Spec{ModPath: c14Mod, Pkgs: c14Pkgs, Feats: c.Feats, Args: [][]string{c.Args}}
}

func c14Run(c c14Case) (v *verdict, prog *progen.Program, labels []string, descs []string) {
	dir := caseDir()
	defer h.RemoveAll(dir)
	spec := c.spec()
	prog = progen.Render(spec)
	src := filepath.Join(dir, "src")
	files := prog.Files
	// every package reports a source position of its own
	for i, p := range spec.Pkgs {
		if _, used := files[filepath.Join(p.Dir, "zq_util.go")]; !used {
			continue
		}
		fn := fmt.Sprintf("PosZq%d", i)
		files[filepath.Join(p.Dir, "zq_pos.go")] = fmt.Sprintf("package %s\n\nimport (\n\t\"path\"\n\t\"runtime\"\n\t\"strconv\"\n)\n\n// %s reports this file's base name and line.\nfunc %s() string {\n\t_, file, line, _ := runtime.Caller(0)\n\treturn path.Base(file) + \":\" + strconv.Itoa(line)\n}\n", p.Name, fn, fn)
		_ = i
	}
	// main prints the positions of all used packages
	var posCalls strings.Builder
	for i, p := range spec.Pkgs {
		if _, used := files[filepath.Join(p.Dir, "zq_pos.go")]; !used {
			continue
		}
		if i == 0 {
			fmt.Fprintf(&posCalls, "\temit(\"pos 0 \" + PosZq0())\n")
		} else if strings.Contains(files["main.go"], fmt.Sprintf("import mz%d ", i)) {
			fmt.Fprintf(&posCalls, "\temit(\"pos %d \" + mz%d.PosZq%d())\n", i, i, i)
		}
	}
	files["main.go"] = strings.Replace(files["main.go"], "\temit(\"done \"", posCalls.String()+"\temit(\"done \"", 1)
	h.WriteFiles(src, files)

	pattern := c14Patterns[c.Pattern]
	cfg := h.Config{GOGARBLE: pattern, Literals: true}
	labels = append(labels, "pattern:"+pattern)
	matched := map[int]bool{}
	anyMatch := false
	both := [2]bool{}
	for i := range spec.Pkgs {
		used := true // packages no feature uses are still imported (blank) by main, hence built
		matched[i] = refMatch(pattern, spec.ImportPath(i))
		if used && matched[i] {
			anyMatch = true
			both[0] = true
		}
		if used && !matched[i] {
			both[1] = true
		}
	}
	crossing := false
	for _, f := range spec.Feats {
		if f.Prov != f.User && matched[f.Prov] != matched[f.User] {
			crossing = true
		}
	}
	if crossing {
		labels = append(labels, "crossing-import")
	}
	stdMatched := refMatch(pattern, "strings") || refMatch(pattern, "fmt")

	plain := sharedPlain()
	pbin, gbin := filepath.Join(dir, "plain.bin"), filepath.Join(dir, "garbled.bin")
	if r := plain.Go(src, nil, "build", "-o", pbin, "."); !r.OK() {
		rc.Abort("generated program does not build: %s\n%s", r.Brief(), files["main.go"])
	}
	// (e') a list that holds no pattern at all, or only patterns that match nothing, spelled with
	// stray commas: refused like any other list that selects nothing (cheap: no build is needed)
	if c.Degenerate != "" {
		labels = append(labels, "degenerate-list")
		dbox := h.NewPlainCaseBox(dir)
		dbin := filepath.Join(dir, "degenerate.bin")
		g := dbox.Garble(h.Config{GOGARBLE: c.Degenerate}, src, "build", "-o", dbin, ".")
		_, statErr := os.Stat(dbin)
		h.RemoveAll(dbox.Root)
		if g.TimedOut {
			rc.Abort("garble timed out: %s", g.Brief())
		}
		if g.Exit == 0 || statErr == nil {
			return violationf("C14/no-match-accepted", "GOGARBLE=%q selects none of the packages being built, yet garble did not refuse (exit %d, binary written: %v)\n%s", c.Degenerate, g.Exit, statErr == nil, g.Brief()), prog, labels, descs
		}
		descs = append(descs, "degenerate-rejected")
	}
	if !anyMatch && !stdMatched {
		// (e) nothing to obfuscate: garble must refuse; no std build is needed for that
		labels = append(labels, "expect:no-match-error")
		box := h.NewPlainCaseBox(dir)
		g := box.Garble(cfg, src, "build", "-o", gbin, ".")
		descs = append(descs, "no-match-rejected")
		_, statErr := os.Stat(gbin)
		if g.Exit == 0 || statErr == nil || !strings.Contains(g.Stderr, "GOGARBLE") {
			return violationf("C14/no-match-accepted", "GOGARBLE=%q matches none of the packages being built, yet garble did not refuse (exit %d, binary written: %v)\n%s", pattern, g.Exit, statErr == nil, g.Brief()), prog, labels, descs
		}
		return nil, prog, labels, descs
	}
	box := h.NewCaseBox(dir, cfg, h.LevelStd)
	g := box.Garble(cfg, src, "build", "-o", gbin, ".")
	if !g.OK() {
		if strings.Contains(g.Stderr, "cannot use struct{") || strings.Contains(g.Stderr, "cannot convert") {
			return &verdict{Key: "C14/build-fails/anon-struct-across-boundary", Msg: fmt.Sprintf("garble build with GOGARBLE=%q fails: an anonymous (or converted) struct type is used on both sides of the GOGARBLE boundary and only one side's field names are obfuscated (features %s):\n%s", pattern, prog.FeatureSet(), g.Brief())}, prog, labels, descs
		}
		return &verdict{Key: "C14/build-fails/" + failureClass(g.Stderr), Msg: fmt.Sprintf("garble build with GOGARBLE=%q fails on a mixed program (features %s):\n%s", pattern, prog.FeatureSet(), g.Brief())}, prog, labels, descs
	}
	// (a) behaviour, apart from the position lines of obfuscated packages
	want, got := runProg(plain, src, pbin, c.Args), runProg(box, src, gbin, c.Args)
	filter := func(out string, keepPos func(int) bool) string {
		var keep []string
		for _, l := range strings.Split(out, "\n") {
			if strings.HasPrefix(l, "pos ") {
				var idx int
				fmt.Sscanf(l, "pos %d", &idx)
				if !keepPos(idx) {
					continue
				}
			}
			keep = append(keep, l)
		}
		return strings.Join(keep, "\n")
	}
	plainPkg := func(i int) bool { return !matched[i] }
	notMain := func(i int) bool { return !matched[i] && i != 0 }
	if filter(want.Stdout, plainPkg) != filter(got.Stdout, plainPkg) && filter(want.Stdout, notMain) == filter(got.Stdout, notMain) && want.Exit == got.Exit {
		// only the position reported from inside an unselected package main differs
		key := "C14/position-shift-main"
		if strings.Contains(os.Getenv("VERIF_EXCLUDE"), key) {
			stats.Excluded(key)
			plainPkg = notMain
		} else {
			return &verdict{Key: key, Msg: fmt.Sprintf("GOGARBLE=%q does not select package main, yet a position reported from inside it differs from the regular build\n--- regular\n%s\n--- garbled\n%s", pattern, h.Clip(filter(want.Stdout, func(i int) bool { return i == 0 }), 600), h.Clip(filter(got.Stdout, func(i int) bool { return i == 0 }), 600))}, prog, labels, descs
		}
	}
	if filter(want.Stdout, plainPkg) != filter(got.Stdout, plainPkg) || want.Exit != got.Exit {
		return &verdict{Key: "C14/behaviour-differs", Msg: fmt.Sprintf("GOGARBLE=%q: the mixed program's output (incl. file:line positions reported from inside packages outside GOGARBLE) differs from the regular build\n--- regular\n%s\n--- garbled\n%s", pattern, h.Clip(filter(want.Stdout, plainPkg), 2000), h.Clip(got.Brief(), 2500))}, prog, labels, descs
	}
	// positions of obfuscated packages must not be the original ones
	for _, l := range strings.Split(got.Stdout, "\n") {
		var idx int
		if n, _ := fmt.Sscanf(l, "pos %d", &idx); n == 1 && matched[idx] && strings.Contains(want.Stdout, l) {
			return violationf("C14/position-kept", "GOGARBLE=%q: package %d is selected for obfuscation but still reports its original position %q", pattern, idx, l), prog, labels, descs
		}
	}
	// (b)/(c) names and literals
	var needles []string
	for _, n := range prog.Names {
		needles = append(needles, n.Name)
	}
	for _, l := range prog.Lits {
		needles = append(needles, l.Text)
	}
	for i := 1; i < len(spec.Pkgs); i++ {
		needles = append(needles, spec.ImportPath(i))
	}
	needles = append(needles, "runtime.gopanic", "runtime.mallocgc")
	// garble always strips the symbol table: what must STAY is judged against a stripped regular binary
	sbin := filepath.Join(dir, "plain-stripped.bin")
	if r := plain.Go(src, nil, "build", "-ldflags=-s -w", "-o", sbin, "."); !r.OK() {
		rc.Abort("stripped regular build failed: %s", r.Brief())
	}
	inStripped := h.ScanBinary(sbin, needles)
	inPlain, inGarbled := h.ScanBinary(pbin, needles), h.ScanBinary(gbin, needles)
	for _, n := range prog.Names {
		if !mustVanishKinds[n.Kind] || n.MayRemain || !inPlain[n.Name] || n.Kind == "dir" {
			continue
		}
		side := "plain"
		if matched[n.Pkg] {
			side = "obfuscated"
		}
		descs = append(descs, stats.Desc("name", n.Kind, side, fmt.Sprint(c.Pattern)))
		switch {
		case matched[n.Pkg] && inGarbled[n.Name]:
			return violationf("C14/selected-package-leaks", "GOGARBLE=%q selects package %s, but its %s %q is still in the binary", pattern, spec.ImportPath(n.Pkg), n.Kind, n.Name), prog, labels, descs
		case !matched[n.Pkg] && inStripped[n.Name] && !inGarbled[n.Name] && n.Kind != "file":
			return violationf("C14/unselected-package-obfuscated", "GOGARBLE=%q does not select package %s, but its %s %q (present in the regular binary) is gone from the garbled binary", pattern, spec.ImportPath(n.Pkg), n.Kind, n.Name), prog, labels, descs
		}
	}
	for _, l := range prog.Lits {
		if l.Len < 8 || l.Len > 2048 || l.Exempt != "" || !inPlain[l.Text] {
			continue
		}
		side := "plain"
		if matched[l.Pkg] {
			side = "obfuscated"
		}
		descs = append(descs, stats.Desc("literal", l.Ctx, side, fmt.Sprint(c.Pattern)))
		switch {
		case matched[l.Pkg] && inGarbled[l.Text]:
			return violationf("C14/selected-package-leaks", "GOGARBLE=%q selects package %s, but its literal %q is still in the binary", pattern, spec.ImportPath(l.Pkg), h.Clip(l.Text, 50)), prog, labels, descs
		case !matched[l.Pkg] && inStripped[l.Text] && !inGarbled[l.Text]:
			return violationf("C14/unselected-package-obfuscated", "GOGARBLE=%q does not select package %s, but its literal %q is gone from the binary", pattern, spec.ImportPath(l.Pkg), h.Clip(l.Text, 50)), prog, labels, descs
		}
	}
	for i := 1; i < len(spec.Pkgs); i++ {
		ip := spec.ImportPath(i)
		if !inPlain[ip] {
			continue
		}
		// a nested package's path contains its parent's: only leaf-unique paths are decisive
		nestedInPlainPkg := false
		for j := 1; j < len(spec.Pkgs); j++ {
			if j != i && strings.HasPrefix(spec.ImportPath(j), ip+"/") && !matched[j] && inPlain[spec.ImportPath(j)] {
				nestedInPlainPkg = true
			}
		}
		if matched[i] && inGarbled[ip] && !nestedInPlainPkg && !strings.HasPrefix(spec.ImportPath(3), ip) {
			return violationf("C14/selected-package-leaks", "GOGARBLE=%q selects package %s, but its import path is still in the binary", pattern, ip), prog, labels, descs
		}
		if !matched[i] && inStripped[ip] && !inGarbled[ip] {
			return violationf("C14/unselected-package-obfuscated", "GOGARBLE=%q does not select package %s, but its import path is gone from the binary", pattern, ip), prog, labels, descs
		}
	}
	// (d) the runtime is never obfuscated
	if !inGarbled["runtime.gopanic"] || !inGarbled["runtime.mallocgc"] {
		return violationf("C14/runtime-obfuscated", "GOGARBLE=%q: runtime function names are missing from the binary", pattern), prog, labels, descs
	}
	if both[0] && both[1] {
		labels = append(labels, "mixed")
	}
	return nil, prog, labels, descs
}

func TestC14(t *testing.T) {
	var kinds []string
	for _, k := range append(progen.DefaultKinds(), progen.KindsNeeding("litmarkers")...) {
		if (k == "anon" || k == "conv") && strings.Contains(os.Getenv("VERIF_EXCLUDE"), "C14/build-fails/anon-struct-across-boundary") {
			continue // listed finding: identical struct types on both sides of the boundary
		}
		kinds = append(kinds, k)
	}
	kinds = append(kinds, progen.KindsNeeding("litmarkers")...)
	rc.Check(t, func(t *rapid.T) {
		var c c14Case
		spec := progen.Draw(t, progen.Options{Kinds: kinds, MinPkgs: 5, MaxPkgs: 5, MinFeats: 4, MaxFeats: 9, NoExit: true})
		c.Feats = spec.Feats
		c.Pattern = rapid.IntRange(0, rc.Pick(5, len(c14Patterns)-1)).Draw(t, "pattern")
		c.Degenerate = rapid.SampledFrom([]string{"", ",", ",,,", "nomatch.example/x,", ",nomatch.example/x,,other.example", c14Mod + "/alph", c14Mod + "/alpha/inn,"}).Draw(t, "degenerate")
		c.Args = rapid.SliceOfN(rapid.SampledFrom([]string{"1", "7", "x", "hello"}), 0, 2).Draw(t, "args")
		v, prog, labels, descs := c14Run(c)
		mixed := strings.Contains(strings.Join(labels, ","), "mixed") && strings.Contains(strings.Join(labels, ","), "crossing-import")
		if len(descs) == 0 {
			stats.Case("none", false, labels, nil)
		}
		for i, d := range descs {
			var ls []string
			if i == 0 {
				ls = labels
			}
			stats.Case(d, mixed || d == "no-match-rejected", ls, nil)
		}
		stats.Sample(map[string]any{"GOGARBLE": c14Patterns[c.Pattern], "features": prog.FeatureSet(), "markers_scored": len(descs)})
		if v != nil {
			dir := dumpViolation(v, "TestC14Replay", c, prog)
			t.Fatalf("%s: %s\nreplay: %s", v.Key, h.Clip(v.Msg, 3000), dir)
		}
	})
}

func TestC14Replay(t *testing.T) {
	rc.Fixed(t, func() {
		var c c14Case
		switch os.Getenv("VERIF_FINDING") {
		case "":
			loadReplay(&c)
		case "C14/build-fails/anon-struct-across-boundary":
			c = c14Case{Pattern: 4, Feats: []progen.Feat{{Kind: "anon", Prov: 2, User: 0, Imp: "plain", P: []int{1, 2, 3, 4}}}}
		case "C14/position-shift-main":
			os.Setenv("VERIF_EXCLUDE", "")
			c = c14Case{Pattern: 0, Feats: []progen.Feat{{Kind: "struct", Prov: 1, User: 0, Imp: "plain", P: []int{1, 2, 3, 4}}}}
		}
		v, _, labels, descs := c14Run(c)
		stats.Case("replay", len(descs) > 0, labels, nil)
		if v != nil {
			stats.Violate(v.Key, v.Msg, nil)
			t.Errorf("%s: %s", v.Key, v.Msg)
		}
	})
}

// TestC14Model checks the reference matcher against hand-computed cases of
// the documented rule (so that the model itself is pinned down).
func TestC14Model(t *testing.T) {
	rc.Fixed(t, func() {
		cases := []struct {
			globs, target string
			want          bool
		}{
			{"example.com/zqmod/alpha", "example.com/zqmod/alpha", true},
			{"example.com/zqmod/alpha", "example.com/zqmod/alpha/inner", true},
			{"example.com/zqmod/alpha", "example.com/zqmod/alphabet", false},
			{"example.com/zqmod/al*", "example.com/zqmod/alphabet", true},
			{"example.com", "example.com/zqmod", true},
			{"example.com/zqmo", "example.com/zqmod", false},
			{"*", "anything/at/all", true},
			{"a,b/c", "b/c/d", true},
			{"a,b/c", "b", false},
			{"*/zqmod/alpha", "example.com/zqmod/alpha/inner", true},
			{"strings", "strings", true},
			{"strings", "strconv", false},
		}
		for _, c := range cases {
			if got := refMatch(c.globs, c.target); got != c.want {
				t.Errorf("refMatch(%q, %q) = %v, want %v", c.globs, c.target, got, c.want)
			}
			stats.Case(c.globs+"|"+c.target, true, []string{"model-case"}, nil)
		}
	})
}
