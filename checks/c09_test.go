package checks

// C09 — with -literals, literal contents do not appear in the binary.

import (
	"fmt"
	"path/filepath"
	"strings"
	"testing"

	"pgregory.net/rapid"
	"verif/h"
	"verif/progen"
	"verif/rc"
	"verif/stats"
)

type c09Case struct {
	Spec progen.Spec `json:"spec"`
	Cfg  h.Config    `json:"cfg"`
}

func c09Kinds() []string {
	ks := progen.KindsNeeding("litmarkers")
	ks = append(ks, ks...)
	ks = append(ks, ks...) // literal features dominate
	ks = append(ks, "struct", "closure", "generic", "consts", "initorder")
	return ks
}

func lenBucket09(n int) string {
	switch {
	case n < 8:
		return "<8"
	case n == 8:
		return "8"
	case n <= 64:
		return "9-64"
	case n <= 256:
		return "65-256"
	case n < 2048:
		return "257-2047"
	case n == 2048:
		return "2048"
	}
	return ">2048"
}

func c09Run(c c09Case) (v *verdict, prog *progen.Program, labels []string, descs []string) {
	dir := caseDir()
	defer h.RemoveAll(dir)
	prog = progen.Render(c.Spec)
	src := filepath.Join(dir, "src")
	h.WriteFiles(src, prog.Files)
	labels = append(labels, "cfg:"+c.Cfg.Class())
	plain := sharedPlain()
	box := h.NewCaseBox(dir, c.Cfg, h.LevelStd)
	plainBin, garbledBin := filepath.Join(dir, "plain.bin"), filepath.Join(dir, "garbled.bin")
	var extra []string
	if prog.LdFlags != "" {
		extra = append(extra, "-ldflags="+prog.LdFlags)
	}
	if r := plain.Go(src, nil, append(append([]string{"build"}, extra...), "-o", plainBin, ".")...); !r.OK() {
		rc.Abort("generated program does not build with the regular toolchain:\n%s", r.Brief())
	}
	g := box.Garble(c.Cfg, src, append(append([]string{"build"}, extra...), "-o", garbledBin, ".")...)
	if !g.OK() {
		return &verdict{Key: "C09/build-fails", Msg: fmt.Sprintf("garble %s build fails on a literal-carrying program:\n%s", c.Cfg.Key(), g.Brief())}, prog, labels, nil
	}
	// liveness and value control: the garbled program prints every literal like the regular one
	want := runProg(plain, src, plainBin, nil)
	got := runProg(box, src, garbledBin, nil)
	if want.Stdout != got.Stdout || want.Exit != got.Exit {
		return &verdict{Key: "C09/values-differ", Msg: fmt.Sprintf("garble %s: the program's output (which prints every literal) differs from the regular build\n--- regular\n%s\n--- garbled\n%s", c.Cfg.Key(), h.Clip(want.Stdout, 1500), h.Clip(got.Brief(), 2500))}, prog, labels, nil
	}
	var needles []string
	for _, l := range prog.Lits {
		needles = append(needles, l.Text)
	}
	needles = append(needles, c.Cfg.Seed)
	inPlain := h.ScanBinary(plainBin, needles)
	inGarbled := h.ScanBinary(garbledBin, needles)
	obfuscatedPkg := func(i int) bool { return true } // GOGARBLE covers the whole module in this check
	var leaks []string
	for _, l := range prog.Lits {
		inWindow := l.Len >= 8 && l.Len <= 2048
		switch {
		case !inWindow:
			labels = append(labels, "out-of-window")
			continue
		case l.Exempt != "":
			labels = append(labels, "exempt:"+l.Ctx)
			continue
		case !obfuscatedPkg(l.Pkg):
			continue
		case !inPlain[l.Text] || !strings.Contains(got.Stdout, l.Text):
			labels = append(labels, "no-positive-control:"+l.Ctx)
			continue
		}
		descs = append(descs, stats.Desc(l.Ctx, l.Form, lenBucket09(l.Len)))
		labels = append(labels, "scored:"+l.Ctx)
		if inGarbled[l.Text] {
			leaks = append(leaks, fmt.Sprintf("%s literal in %s position, %d bytes: %q", l.Form, l.Ctx, l.Len, h.Clip(l.Text, 60)))
		}
	}
	if len(leaks) > 0 {
		ctx := strings.Fields(leaks[0])[3]
		return &verdict{Key: "C09/literal-leak/" + ctx, Msg: fmt.Sprintf("garble %s: literals inside the obfuscation window appear verbatim in the binary:\n  %s", c.Cfg.Key(), strings.Join(leaks, "\n  "))}, prog, labels, descs
	}
	if c.Cfg.Seed != "" {
		descs = append(descs, "seed-text")
		if inGarbled[c.Cfg.Seed] {
			return &verdict{Key: "C09/seed-leak", Msg: fmt.Sprintf("the -seed value %q appears in the binary", c.Cfg.Seed)}, prog, labels, descs
		}
	}
	return nil, prog, labels, descs
}

func TestC09(t *testing.T) {
	rc.Check(t, func(t *rapid.T) {
		var c c09Case
		c.Spec = progen.Draw(t, progen.Options{Kinds: c09Kinds(), MinPkgs: 1, MaxPkgs: 3, MinFeats: 2, MaxFeats: 5, NoExit: true})
		c.Spec.Args = nil
		c.Cfg = configByName(rapid.SampledFrom([]string{"literals", "literals+tiny", "seed+literals+tiny", "modonly+literals"}).Draw(t, "cfg"), 0)
		v, prog, labels, descs := c09Run(c)
		if len(descs) == 0 {
			stats.Case("none", false, labels, nil)
		}
		for i, d := range descs {
			var ls []string
			if i == 0 {
				ls = labels
			}
			stats.Case(d, true, ls, nil)
		}
		if len(prog.Lits) > 0 {
			l := prog.Lits[0]
			stats.Sample(map[string]any{"config": c.Cfg.Key(), "literals": len(prog.Lits), "scored": len(descs), "first": map[string]any{"ctx": l.Ctx, "form": l.Form, "len": l.Len, "text": h.Clip(l.Text, 40)}})
		}
		if v != nil {
			dir := dumpViolation(v, "TestC09Replay", c, prog)
			t.Fatalf("%s: %s\nreplay: %s", v.Key, h.Clip(v.Msg, 3000), dir)
		}
	})
}

func TestC09Replay(t *testing.T) {
	rc.Fixed(t, func() {
		var c c09Case
		loadReplay(&c)
		v, _, labels, descs := c09Run(c)
		for _, d := range descs {
			stats.Case(d, true, nil, nil)
		}
		stats.Case("replay", true, labels, nil)
		if v != nil {
			stats.Violate(v.Key, v.Msg, nil)
			t.Errorf("%s: %s", v.Key, v.Msg)
		}
	})
}
