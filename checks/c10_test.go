package checks

// C10 — -tiny silences every crash but keeps crash semantics.

import (
	"fmt"
	"os"
	"path/filepath"
	"strconv"
	"strings"
	"testing"
	"time"

	"pgregory.net/rapid"
	"verif/h"
	"verif/rc"
	"verif/stats"
)

type c10Case struct {
	Own     [4]string `json:"own"`     // the program's own output: print, println, os.Stderr, os.Stdout
	InLib   bool      `json:"in_lib"`  // crash code lives in a dependency instead of main
	Extra   string    `json:"extra"`   // extra flags: "" | "literals" | "seed"
	Runs    []c10Run  `json:"runs"`    // the (kind, context, mode, GOTRACEBACK) points to execute
	PanicS  string    `json:"panic_s"` // text used in string panics
	ExitN   int       `json:"exit_n"`  // code for os.Exit
	Padding int       `json:"padding"` // unrelated functions before the crash code (moves positions)
}

type c10Run struct {
	Kind      int    `json:"kind"`
	Ctx       int    `json:"ctx"`
	Mode      string `json:"mode"` // crash | recover | pos
	Traceback string `json:"traceback"`
}

var c10Kinds = []string{
	0: "panic-string", 1: "panic-error", 2: "panic-stringer", 3: "panic-struct", 4: "panic-custom-error",
	5: "panic-error-whose-Error-panics", 6: "nil-deref", 7: "index-bounds", 8: "slice-bounds", 9: "div-zero",
	10: "type-assert", 11: "type-assert-iface", 12: "nil-map-write", 13: "send-closed", 14: "close-closed",
	15: "close-nil", 16: "mutex-deadlock", 17: "recv-deadlock", 18: "repanic-in-defer", 19: "goexit-main",
	20: "unrecovered-after-recovered", 21: "nil-func-call", 22: "os-exit", 23: "unlock-unlocked", 24: "makeslice-negative",
	25: "stack-overflow",
}

var c10Ctxs = []string{"main", "callee", "goroutine", "deferred", "closure"}

// recoverable reports whether recover() can catch the crash kind.
func c10Recoverable(kind int) bool {
	switch kind {
	case 16, 17, 19, 22, 23, 25: // fatal errors, Goexit, os.Exit
		return false
	}
	return true
}

func c10Source(c c10Case) map[string]string {
	pkg, imp, call := "main", "", "crash"
	if c.InLib {
		pkg, imp, call = "crashlib", "\t\"zqsimple/crashprog/crashlib\"\n", "crashlib.Crash"
	}
	var pad strings.Builder
	for i := 0; i < c.Padding; i++ {
		fmt.Fprintf(&pad, "func pad%d(n int) int {\n\tif n > %d {\n\t\treturn n - 1\n\t}\n\treturn n + %d\n}\n\n", i, i, i)
	}
	crashName := "crash"
	if c.InLib {
		crashName = "Crash"
	}
	crashSrc := fmt.Sprintf(`package %s

import (
	"errors"
	"os"
	"runtime"
	"strconv"
	"sync"
)

var (
	_ = errors.New
	_ = strconv.Itoa
)

type Strg struct{ S string }

func (s Strg) String() string { return "stringer:" + s.S }

type Cerr struct{ Code int }

func (e Cerr) Error() string { return "cerr" + strconv.Itoa(e.Code) }

type BadErr struct{}

func (BadErr) Error() string { panic("error method panics") }

type Custom struct {
	A int
	B string
}

%s
//go:noinline
func overflow(n int) int { return overflow(n+1) + n }

//go:noinline
func zero() int { return len(os.Args) - len(os.Args) }

// %s performs the selected crash.
func %s(kind int) {
	z := zero()
	switch kind {
	case 0:
		panic("string panic " + %q)
	case 1:
		panic(errors.New("error panic"))
	case 2:
		panic(Strg{"x"})
	case 3:
		panic(Custom{1, "c"})
	case 4:
		panic(Cerr{7})
	case 5:
		panic(BadErr{})
	case 6:
		var p *Custom
		if z == 0 {
			_ = p.A
		}
	case 7:
		a := []int{1}
		_ = a[z+6]
	case 8:
		a := []int{1, 2}
		_ = a[1 : z+7]
	case 9:
		_ = 10 / z
	case 10:
		var v any = "s"
		_ = v.(int)
	case 11:
		var v any = "s"
		_ = v.(interface{ Foo() })
	case 12:
		var m map[string]int
		m["x"] = 1
	case 13:
		ch := make(chan int)
		close(ch)
		ch <- 1
	case 14:
		ch := make(chan int)
		close(ch)
		close(ch)
	case 15:
		var ch chan int
		close(ch)
	case 16:
		var mu sync.Mutex
		mu.Lock()
		mu.Lock()
	case 17:
		ch := make(chan int)
		<-ch
	case 18:
		defer func() { panic("second") }()
		panic("first")
	case 19:
		runtime.Goexit()
	case 20:
		func() {
			defer func() { recover() }()
			panic("recovered one")
		}()
		panic("then unrecovered")
	case 21:
		var f func()
		f()
	case 22:
		os.Exit(%d)
	case 23:
		var mu sync.Mutex
		mu.Unlock()
	case 24:
		_ = make([]int, z-1)
	case 25:
		_ = overflow(z)
	}
}
`, pkg, pad.String(), crashName, crashName, c.PanicS, c.ExitN)

	mainSrc := fmt.Sprintf(`package main

import (
	"os"
	"runtime"
	"strconv"
%s)

var _ = strconv.Itoa

func own() {
	print(%q)
	println(%q)
	os.Stderr.WriteString(%q)
	os.Stdout.WriteString(%q)
}

// describe prints what recover() returned without printing type names.
func describe(r any) {
	switch v := r.(type) {
	case nil:
		println("recovered nil")
	case string:
		println("recovered string", v)
	case runtime.Error:
		println("recovered runtime error", v.Error())
	case interface{ String() string }:
		println("recovered stringer", v.String())
	case error:
		if s, ok := safeError(v); ok {
			println("recovered error", s)
		} else {
			println("recovered error whose Error panics")
		}
	default:
		println("recovered other")
	}
}

func safeError(e error) (s string, ok bool) {
	defer func() {
		if recover() != nil {
			ok = false
		}
	}()
	return e.Error(), true
}

//go:noinline
func level3(kind int) { %s(kind) }

//go:noinline
func level2(kind int) { level3(kind) }

func do(kind, ctx int) {
	switch ctx {
	case 0:
		%s(kind)
	case 1:
		level2(kind)
	case 2:
		done := make(chan struct{})
		go func() {
			level2(kind)
			close(done)
		}()
		<-done
	case 3:
		func() {
			defer level2(kind)
		}()
	case 4:
		f := func() func() { return func() { %s(kind) } }()
		f()
	}
}

func posOneLine() (string, int) { _, f, l, _ := runtime.Caller(0); return f, l }

func posFrames() (string, int) {
	pcs := make([]uintptr, 1); runtime.Callers(1, pcs); fr, _ := runtime.CallersFrames(pcs).Next(); return fr.File, fr.Line
}

func posArg(f string, l int) (string, int) { return f, l }

var sinkZq int

func quietZq() bool { sinkZq++; return sinkZq > 0 }

func main() {
	kind, _ := strconv.Atoi(os.Args[1])
	ctx, _ := strconv.Atoi(os.Args[2])
	mode := os.Args[3]
	own()
	switch mode {
	case "dry":
		return
	case "pos":
		_, file, line, ok := runtime.Caller(0)
		println("caller", file, line, ok)
		pc, _, _, _ := runtime.Caller(0)
		f := runtime.FuncForPC(pc)
		ffile, fline := f.FileLine(pc)
		println("fileline", ffile, fline)
		// the same queries in layouts gofmt would not produce: several statements on one source line
		if ok { _, file, line, ok = runtime.Caller(0) }
		println("caller", file, line, ok)
		quietZq(); _, file, line, ok = runtime.Caller(0); println("caller", file, line, ok)
		file, line = posOneLine(); println("caller", file, line, true)
		file, line = posFrames(); println("caller", file, line, true)
		func() { defer func() { _, file, line, ok = runtime.Caller(0) }(); quietZq() }()
		println("caller", file, line, ok)
		file, line = posArg(func() (string, int) { _, f, l, _ := runtime.Caller(0); return f, l }()); println("caller", file, line, true)
		for i := 0; i < 2; i++ { _, file, line, ok = runtime.Caller(0); println("caller", file, line, ok) }
		switch { case ok: _, file, line, ok = runtime.Caller(0); println("caller", file, line, ok) }
		return
	case "recover":
		func() {
			defer func() { describe(recover()) }()
			do(kind, ctx)
		}()
		println("after recover")
		os.Stdout.WriteString("stdout after\n")
		os.Exit(kind %% 3)
	default:
		do(kind, ctx)
		println("no crash happened")
	}
}
`, imp, c.Own[0], c.Own[1], c.Own[2], c.Own[3], call, call, call)
	files := map[string]string{"go.mod": "module zqsimple/crashprog\n\ngo 1.26\n", "main.go": mainSrc}
	if c.InLib {
		files["crashlib/crash.go"] = crashSrc
	} else {
		files["crash.go"] = crashSrc
	}
	return files
}

func (c c10Case) cfg() h.Config {
	cfg := h.Config{Tiny: true}
	switch c.Extra {
	case "literals":
		cfg.Literals = true
	case "seed":
		cfg = h.Config{Tiny: true, Literals: true, Seed: fixedSeeds[0]}
	}
	return cfg
}

func c10Env(box *h.Box, tb string) []string {
	if tb == "" {
		return box.Env(h.Config{})
	}
	return box.Env(h.Config{}, "GOTRACEBACK="+tb)
}

func c10Exec(box *h.Box, dir, bin string, r c10Run, mode string) h.Result {
	return h.Run(h.Cmd{Dir: dir, Env: c10Env(box, r.Traceback), Args: []string{bin, strconv.Itoa(r.Kind), strconv.Itoa(r.Ctx), mode}, Timeout: 60 * time.Second})
}

type c10Point struct {
	desc       string
	nontrivial bool
	labels     []string
}

func c10RunCase(c c10Case) (*verdict, []c10Point) {
	dir := caseDir()
	defer h.RemoveAll(dir)
	src := filepath.Join(dir, "src")
	h.WriteFiles(src, c10Source(c))
	plain := sharedPlain()
	pbin, tbin := filepath.Join(dir, "plain.bin"), filepath.Join(dir, "tiny.bin")
	if r := plain.Go(src, nil, "build", "-trimpath", "-o", pbin, "."); !r.OK() {
		rc.Abort("C10 program does not build with the regular toolchain:\n%s", r.Brief())
	}
	box := h.NewCaseBox(dir, c.cfg(), h.LevelStd)
	if g := box.Garble(c.cfg(), src, "build", "-o", tbin, "."); !g.OK() {
		return &verdict{Key: "C10/build-fails", Msg: "garble -tiny build fails:\n" + g.Brief()}, nil
	}
	var points []c10Point
	for _, r := range c.Runs {
		if r.Mode == "recover" && !(c10Recoverable(r.Kind) && r.Ctx != 2) {
			// fatal errors, Goexit, os.Exit and panics of other goroutines cannot be
			// recovered by main's deferred call: these points are plain crashes
			r.Mode = "crash"
		}
		kindName, ctxName := c10Kinds[r.Kind], c10Ctxs[r.Ctx]
		pt := c10Point{desc: stats.Desc(kindName, ctxName, r.Mode, r.Traceback), labels: []string{"kind:" + kindName, "ctx:" + ctxName, "mode:" + r.Mode, "tb:" + r.Traceback}}
		name := fmt.Sprintf("%s in %s, mode %s, GOTRACEBACK=%q", kindName, ctxName, r.Mode, r.Traceback)
		switch r.Mode {
		case "pos":
			got := c10Exec(box, src, tbin, r, "pos")
			dry := c10Exec(plain, src, pbin, r, "dry")
			rest := strings.TrimPrefix(got.Stderr, dry.Stderr)
			pt.nontrivial = true
			if got.Exit != 0 || got.Stdout != dry.Stdout || !strings.HasPrefix(got.Stderr, dry.Stderr) {
				return violationf("C10/pos-run-differs", "%s: the -tiny program's own output differs: %s", name, got.Brief()), points
			}
			for _, line := range strings.Split(strings.TrimSpace(rest), "\n") {
				f := strings.Fields(line)
				// "caller <file> <line> true" / "fileline <file> <line>"; an empty file name yields one field less
				okLine := false
				switch {
				case len(f) == 4 && f[0] == "caller":
					okLine = (f[1] == "??" || f[1] == "") && f[2] == "1"
				case len(f) == 3 && f[0] == "caller":
					okLine = f[1] == "1"
				case len(f) == 3 && f[0] == "fileline":
					okLine = (f[1] == "??" || f[1] == "") && (f[2] == "1" || f[2] == "0")
				case len(f) == 2 && f[0] == "fileline":
					okLine = f[1] == "1" || f[1] == "0"
				}
				if !okLine {
					return violationf("C10/position-reported", "%s: a position query under -tiny reports %q (expected no file name and line 1)", name, line), points
				}
			}
		case "recover":
			want := c10Exec(plain, src, pbin, r, "recover")
			got := c10Exec(box, src, tbin, r, "recover")
			if want.TimedOut {
				rc.Abort("regular program timed out: %s", want.Brief())
			}
			// a panic in another goroutine cannot be recovered by main's deferred call
			if c10Recoverable(r.Kind) && r.Ctx != 2 {
				pt.nontrivial = strings.Contains(want.Stderr, "recovered") && !strings.Contains(want.Stderr, "recovered nil")
				if got.Stderr != want.Stderr || got.Stdout != want.Stdout || got.Exit != want.Exit {
					return violationf("C10/recover-differs", "%s: with a recovering caller the -tiny program differs from the regular build\n--- regular\n%s--- tiny\n%s", name, want.Brief(), got.Brief()), points
				}
			} else {
				// unrecoverable: behaves like crash mode
				dry := c10Exec(plain, src, pbin, r, "dry")
				pt.nontrivial = len(want.Stderr) > len(dry.Stderr)
				if v := c10CompareCrash(name, want, got, dry, r); v != nil {
					return v, points
				}
			}
		default:
			want := c10Exec(plain, src, pbin, r, "crash")
			got := c10Exec(box, src, tbin, r, "crash")
			dry := c10Exec(plain, src, pbin, r, "dry")
			if want.TimedOut {
				rc.Abort("regular program timed out: %s", want.Brief())
			}
			pt.nontrivial = len(want.Stderr) > len(dry.Stderr) // the runtime had something to say
			if v := c10CompareCrash(name, want, got, dry, r); v != nil {
				return v, points
			}
		}
		points = append(points, pt)
	}
	return nil, points
}

// c10CompareCrash: -tiny writes exactly the program's own output and exits
// like the regular build.
func c10CompareCrash(name string, want, got, dry h.Result, r c10Run) *verdict {
	if got.TimedOut {
		return violationf("C10/tiny-hangs", "%s: the -tiny program did not terminate\n%s", name, got.Brief())
	}
	ownStderr := dry.Stderr
	if r.Kind == 22 || strings.Contains(want.Stderr, "no crash happened") {
		ownStderr = want.Stderr // os.Exit and non-crashing paths: nothing for the runtime to print
	}
	if got.Stderr != ownStderr {
		return violationf("C10/tiny-prints", "%s: under -tiny stderr must hold only what the program itself wrote\n--- own output (%d bytes)\n%s\n--- -tiny stderr (%d bytes)\n%s\n--- regular build, for reference\n%s", name, len(ownStderr), h.Clip(ownStderr, 600), len(got.Stderr), h.Clip(got.Stderr, 1500), h.Clip(want.Stderr, 800))
	}
	if got.Stdout != want.Stdout {
		return violationf("C10/stdout-differs", "%s: stdout differs\n--- regular\n%s\n--- tiny\n%s", name, h.Clip(want.Stdout, 500), h.Clip(got.Stdout, 500))
	}
	if got.Exit != want.Exit {
		return violationf("C10/exit-differs", "%s: exit status %d under -tiny, %d for the regular build\n%s", name, got.Exit, want.Exit, got.Brief())
	}
	return nil
}

func TestC10(t *testing.T) {
	rc.Check(t, func(t *rapid.T) {
		var c c10Case
		ownGen := rapid.SampledFrom([]string{"", "own-a", "own output with spaces", "line1\nline2", "ünï", "panic: fake", "goroutine 1 [running]:", "fatal error: not really", "%d %s", "x"})
		for i := range c.Own {
			c.Own[i] = ownGen.Draw(t, fmt.Sprintf("own%d", i))
		}
		c.InLib = rapid.Bool().Draw(t, "inlib")
		c.Extra = rapid.SampledFrom([]string{"", "", "literals", "seed"}).Draw(t, "extra")
		c.PanicS = rapid.SampledFrom([]string{"boom", "", "with\nnewline", "ünï"}).Draw(t, "panics")
		c.ExitN = rapid.IntRange(0, 5).Draw(t, "exitn")
		c.Padding = rapid.IntRange(0, 6).Draw(t, "padding")
		n := rapid.IntRange(10, rc.Pick(30, 60)).Draw(t, "nruns")
		for i := 0; i < n; i++ {
			var r c10Run
			r.Kind = rapid.IntRange(0, len(c10Kinds)-1).Draw(t, "kind")
			if r.Kind == 25 && rapid.IntRange(0, 3).Draw(t, "skipoverflow") != 0 {
				r.Kind = 7 // the stack overflow takes seconds: keep it rare
			}
			r.Ctx = rapid.IntRange(0, len(c10Ctxs)-1).Draw(t, "ctx")
			r.Mode = rapid.SampledFrom([]string{"crash", "crash", "crash", "recover", "pos"}).Draw(t, "mode")
			r.Traceback = rapid.SampledFrom([]string{"", "", "none", "single", "all", "system"}).Draw(t, "tb")
			c.Runs = append(c.Runs, r)
		}
		v, points := c10RunCase(c)
		for i, p := range points {
			var sample any
			if i == 0 {
				sample = map[string]any{"own_output": c.Own, "crash_in_dependency": c.InLib, "flags": c.cfg().Key(), "runs": len(c.Runs), "first_run": c.Runs[0]}
			}
			stats.Case(p.desc, p.nontrivial, p.labels, sample)
		}
		if v != nil {
			dir := dumpViolation(v, "TestC10Replay", c, nil)
			for name, content := range c10Source(c) {
				p := filepath.Join(dir, "module", name)
				os.MkdirAll(filepath.Dir(p), 0o755)
				os.WriteFile(p, []byte(content), 0o644)
			}
			t.Fatalf("%s: %s\nreplay: %s", v.Key, h.Clip(v.Msg, 3000), dir)
		}
	})
}

func TestC10Replay(t *testing.T) {
	rc.Fixed(t, func() {
		var c c10Case
		loadReplay(&c)
		v, points := c10RunCase(c)
		for _, p := range points {
			stats.Case(p.desc, p.nontrivial, p.labels, nil)
		}
		if v != nil {
			stats.Violate(v.Key, v.Msg, nil)
			t.Errorf("%s: %s", v.Key, v.Msg)
		}
	})
}
