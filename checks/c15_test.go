package checks

// C15 — identical struct types get identical field names everywhere (end-to-end part).

import (
	"fmt"
	"go/ast"
	"go/types"
	"path/filepath"
	"sort"
	"strings"
	"testing"

	"pgregory.net/rapid"
	"verif/h"
	"verif/progen"
	"verif/rc"
	"verif/stats"
)

type c15eCase struct {
	Spec progen.Spec `json:"spec"`
	Cfg  h.Config    `json:"cfg"`
}

type structSite struct {
	pkg    string
	where  string
	st     *types.Struct
	fields []string // garbled field names by index ("" when unknown)
}

func c15eRun(c c15eCase) (v *verdict, prog *progen.Program, labels []string, groups int) {
	dir := caseDir()
	defer h.RemoveAll(dir)
	prog = progen.Render(c.Spec)
	src := filepath.Join(dir, "src")
	h.WriteFiles(src, prog.Files)
	labels = append(labels, "cfg:"+c.Cfg.Class())
	box := h.NewCaseBox(dir, c.Cfg, h.LevelStd)
	plain := sharedPlain()
	dd := filepath.Join(dir, "debugdir")
	pbin, gbin := filepath.Join(dir, "plain.bin"), filepath.Join(dir, "garbled.bin")
	if r := plain.Go(src, nil, "build", "-o", pbin, "."); !r.OK() {
		rc.Abort("generated program does not build: %s", r.Brief())
	}
	g := box.GarbleX(c.Cfg, src, []string{"-debugdir=" + dd}, nil, "build", "-o", gbin, ".")
	if !g.OK() {
		return &verdict{Key: "C15/build-fails/" + failureClass(g.Stderr), Msg: fmt.Sprintf("garble %s build fails on a program using identical struct types across packages (features %s):\n%s", c.Cfg.Key(), prog.FeatureSet(), g.Brief())}, prog, labels, 0
	}
	for _, args := range c.Spec.Args {
		want, got := runProg(plain, src, pbin, args), runProg(box, src, gbin, args)
		if d := diffRuns(want, got); d != "" {
			return &verdict{Key: "C15/behaviour-differs", Msg: fmt.Sprintf("garble %s: program using struct conversions behaves differently: %s\n%s", c.Cfg.Key(), d, got.Brief())}, prog, labels, 0
		}
	}
	if prog.Features["tests"] && c.Cfg == (h.Config{}) {
		// test variants: the package is compiled once more with its test files, and
		// the external test package imports that variant; identical struct types
		// must still agree on their field names, or the tests do not compile.
		tbox := h.NewCaseBox(dir, c.Cfg, h.LevelTest)
		want := plain.Go(src, nil, "test", "-count=1", "-v", "./...")
		got := tbox.Garble(c.Cfg, src, "test", "-count=1", "-v", "./...")
		labels = append(labels, "garble-test")
		if wv, gv := testVerdicts(want.Stdout), testVerdicts(got.Stdout); wv != gv || want.Exit != got.Exit {
			return &verdict{Key: "C15/test-variant-differs", Msg: fmt.Sprintf("garble test differs from go test on a program whose external test package uses the fields of a struct with unexported fields\n--- go test (exit %d)\n%s\n--- garble test (exit %d)\n%s\n%s", want.Exit, wv, got.Exit, gv, h.Clip(got.Stderr+got.Stdout, 2500))}, prog, labels, 0
		}
		h.RemoveAll(tbox.Root)
	}
	nm, err := h.ExtractNames(src, dd, pkgDirs(c.Spec))
	if err != nil {
		rc.Abort("pairing original and garbled sources: %v", err)
	}
	pkgs := loadTyped(box, src, nil)
	dirs := pkgDirs(c.Spec)
	var sites []structSite
	for _, p := range pkgs {
		rel, ours := dirs[p.PkgPath]
		if !ours {
			continue
		}
		// every struct type expression in declarations of this package
		for _, f := range p.Syntax {
			base := filepath.Base(p.Fset.Position(f.Pos()).Filename)
			ast.Inspect(f, func(n ast.Node) bool {
				stx, ok := n.(*ast.StructType)
				if !ok {
					return true
				}
				tv, ok := p.TypesInfo.Types[stx]
				if !ok {
					return true
				}
				st, ok := tv.Type.(*types.Struct)
				if !ok {
					return true
				}
				site := structSite{pkg: p.PkgPath, where: fmt.Sprintf("%s:%d", base, p.Fset.Position(stx.Pos()).Line), st: st}
				idx := 0
				for _, fld := range stx.Fields.List {
					if len(fld.Names) == 0 {
						site.fields = append(site.fields, "") // embedded: named after its type
						idx++
						continue
					}
					for _, name := range fld.Names {
						pos := p.Fset.Position(name.Pos())
						site.fields = append(site.fields, nm.ByPos[fmt.Sprintf("%s:%d", filepath.Join(rel, base), pos.Offset)])
						idx++
					}
				}
				if len(site.fields) == st.NumFields() {
					sites = append(sites, site)
				}
				return true
			})
		}
	}
	// group by identity ignoring tags
	used := make([]bool, len(sites))
	for i := range sites {
		if used[i] {
			continue
		}
		group := []int{i}
		for j := i + 1; j < len(sites); j++ {
			if !used[j] && types.IdenticalIgnoreTags(sites[i].st, sites[j].st) {
				group = append(group, j)
				used[j] = true
			}
		}
		if len(group) < 2 || sites[i].st.NumFields() == 0 {
			continue
		}
		crossPkg := false
		for _, j := range group {
			if sites[j].pkg != sites[i].pkg {
				crossPkg = true
			}
		}
		if crossPkg {
			labels = append(labels, "group:cross-package")
		} else {
			labels = append(labels, "group:same-package")
		}
		groups++
		for _, j := range group[1:] {
			for k := range sites[i].fields {
				a, b := sites[i].fields[k], sites[j].fields[k]
				if a == "" || b == "" {
					continue
				}
				if a != b {
					return &verdict{Key: "C15/field-name-differs", Msg: fmt.Sprintf("garble %s: field %d (%s) of identical struct types is named %q at %s %s and %q at %s %s\n  type: %s", c.Cfg.Key(), k, sites[i].st.Field(k).Name(), a, sites[i].pkg, sites[i].where, b, sites[j].pkg, sites[j].where, sites[i].st)}, prog, labels, groups
				}
			}
		}
	}
	sort.Strings(labels)
	return nil, prog, labels, groups
}

func c15Kinds() []string {
	return []string{"conv", "conv", "conv", "anon", "anon", "struct", "embed", "embedalias", "generic", "genericmethods", "unexportedclash", "recursive", "sortmaps", "tests", "tests"}
}

func TestC15(t *testing.T) {
	rc.Check(t, func(t *rapid.T) {
		var c c15eCase
		c.Spec = progen.Draw(t, progen.Options{Kinds: c15Kinds(), MinPkgs: 2, MaxPkgs: 3, MinFeats: 3, MaxFeats: 7, NoExit: true})
		c.Cfg = configByName(rapid.SampledFrom([]string{"default", "seed", "tiny", "literals", "modonly"}).Draw(t, "cfg"), 0)
		v, prog, labels, groups := c15eRun(c)
		cross := strings.Contains(strings.Join(labels, ","), "cross-package")
		stats.Case(stats.Desc(prog.FeatureSet(), c.Cfg.Class()), groups > 0 && cross, labels, map[string]any{"features": prog.FeatureSet(), "config": c.Cfg.Key(), "identical_struct_groups": groups})
		stats.LabelN("identical-struct-groups", groups)
		if v != nil {
			dir := dumpViolation(v, "TestC15Replay", c, prog)
			t.Fatalf("%s: %s\nreplay: %s", v.Key, h.Clip(v.Msg, 3000), dir)
		}
	})
}

func TestC15Replay(t *testing.T) {
	rc.Fixed(t, func() {
		var c c15eCase
		loadReplay(&c)
		v, _, labels, groups := c15eRun(c)
		stats.Case("replay", groups > 0, labels, nil)
		if v != nil {
			stats.Violate(v.Key, v.Msg, nil)
			t.Errorf("%s: %s", v.Key, v.Msg)
		}
	})
}
