package checks

// C03 — builds are reproducible bit for bit.

import (
	"fmt"
	"os"
	"path/filepath"
	"sort"
	"strings"
	"testing"
	"time"

	"pgregory.net/rapid"
	"verif/h"
	"verif/progen"
	"verif/rc"
	"verif/stats"
)

// circumstance is everything about a build the statement says must not matter.
type circumstance struct {
	Cache   string `json:"cache"`    // cold | warm | partial
	P       int    `json:"p"`        // -p value
	SrcDir  string `json:"src_dir"`  // name of the source directory (different lengths)
	TmpDir  string `json:"tmp_dir"`  // name of TMPDIR
	TmpIn   string `json:"tmp_in"`   // "" outside the source tree | "root" inside the main package dir | "pkg" inside a dependency's dir
	DelayMs int    `json:"delay_ms"` // idle time before the build
}

type c03Case struct {
	Spec  progen.Spec    `json:"spec"`
	Cfg   h.Config       `json:"cfg"`
	Circs []circumstance `json:"circs"`
}

func c03Kinds(ctrlflow bool) []string {
	ks := progen.DefaultKinds()
	ks = append(ks, progen.KindsNeeding("asm")...)
	ks = append(ks, progen.KindsNeeding("linkname")...)
	if ctrlflow {
		ks = append(ks, progen.KindsNeeding("ctrlflow")...)
		ks = append(ks, progen.KindsNeeding("ctrlflow")...) // more weight
		ks = append(ks, progen.KindsNeeding("ctrlflow")...)
	}
	return ks
}

// tmpHostDir picks the package directory that hosts TMPDIR in the "inside a
// package" circumstances: a package with assembly files when there is one
// (assembly has no //line directives, so its paths depend on -trimpath alone).
func tmpHostDir(s progen.Spec) string {
	for _, f := range s.Feats {
		if f.Kind == "asm" {
			return s.Pkgs[f.Prov].Dir
		}
	}
	return s.Pkgs[len(s.Pkgs)-1].Dir
}

// c03Build performs one build under a circumstance and returns the binary's hash.
func c03Build(c c03Case, prog *progen.Program, root string, idx int, circ circumstance, debugDir string) (sum string, res h.Result, rebuilt bool) {
	cdir := filepath.Join(root, fmt.Sprintf("b%d", idx))
	src := filepath.Join(cdir, circ.SrcDir)
	h.WriteFiles(src, prog.Files)
	box := h.NewCaseBox(cdir, c.Cfg, h.LevelStd)
	box.Tmp = filepath.Join(cdir, circ.TmpDir)
	switch circ.TmpIn {
	case "root":
		box.Tmp = filepath.Join(src, circ.TmpDir)
	case "pkg":
		box.Tmp = filepath.Join(src, tmpHostDir(c.Spec), circ.TmpDir)
	}
	h.Must(os.MkdirAll(box.Tmp, 0o755))
	if circ.DelayMs > 0 {
		time.Sleep(time.Duration(circ.DelayMs) * time.Millisecond)
	}
	out := filepath.Join(cdir, "out.bin")
	args := []string{"build", "-p", fmt.Sprint(circ.P), "-o", out}
	var gflags []string
	if debugDir != "" {
		gflags = append(gflags, "-debugdir="+debugDir)
	}
	switch circ.Cache {
	case "partial":
		// a dependency is built first, so part of the module is already cached
		if len(c.Spec.Pkgs) > 1 {
			box.GarbleX(c.Cfg, src, gflags, nil, "build", "-p", fmt.Sprint(circ.P), "./"+c.Spec.Pkgs[len(c.Spec.Pkgs)-1].Dir)
		}
	case "warm":
		// the whole program is built once before: the measured build is fully cached
		w := box.GarbleX(c.Cfg, src, gflags, nil, append(args, ".")...)
		if !w.OK() {
			return "", w, false
		}
		os.Remove(out)
	}
	res = box.GarbleX(c.Cfg, src, gflags, nil, append(args, ".")...)
	if !res.OK() {
		return "", res, false
	}
	return h.FileSHA(out), res, circ.Cache != "warm"
}

func c03Run(c c03Case) (v *verdict, prog *progen.Program, labels []string, nontrivial bool) {
	root := caseDir()
	defer h.RemoveAll(root)
	prog = progen.Render(c.Spec)
	labels = append(labels, "cfg:"+c.Cfg.Class())
	for _, k := range sortedKeys(prog.Features) {
		labels = append(labels, "feat:"+k)
	}
	var sums []string
	rebuilds := 0
	for i, circ := range c.Circs {
		labels = append(labels, "cache:"+circ.Cache, fmt.Sprintf("p:%d", circ.P), "tmpin:"+circ.TmpIn)
		sum, res, rebuilt := c03Build(c, prog, root, i, circ, "")
		if sum == "" {
			// not a reproducibility question; C01 judges build failures
			labels = append(labels, "garble-build-failed")
			stats.Note("garble build failed in a C03 case (judged by C01/C11): %s", h.Clip(res.Stderr, 300))
			return nil, prog, labels, false
		}
		if rebuilt {
			rebuilds++
		}
		sums = append(sums, sum)
	}
	nontrivial = rebuilds >= 2
	for i := 1; i < len(sums); i++ {
		if sums[i] != sums[0] {
			detail := c03Explain(c, prog, root, 0, i)
			return &verdict{Key: "C03/binary-differs" + c03Class(c, prog), Msg: fmt.Sprintf("garble %s: two builds of the same source, flags, seed and toolchain differ: sha256 %s (circumstances %+v) vs %s (%+v)\nfeatures %s\n%s",
				c.Cfg.Key(), sums[0][:16], c.Circs[0], sums[i][:16], c.Circs[i], prog.FeatureSet(), detail)}, prog, labels, nontrivial
		}
	}
	return nil, prog, labels, nontrivial
}

// c03Class names the component for the classifier key.
func c03Class(c c03Case, prog *progen.Program) string {
	if c.Cfg.ControlFlow && prog.Features["ctrlflow"] {
		return "/ctrlflow"
	}
	if c.Cfg.Literals {
		return "/literals"
	}
	return ""
}

// c03Explain rebuilds two circumstances with -debugdir and names the first
// garbled file that differs.
func c03Explain(c c03Case, prog *progen.Program, root string, a, b int) string {
	var dirs [2]string
	for k, idx := range []int{a, b} {
		dd := filepath.Join(root, fmt.Sprintf("debug%d", k))
		circ := c.Circs[idx]
		circ.Cache = "cold"
		sub := filepath.Join(root, fmt.Sprintf("explain%d", k))
		c03Build(c, prog, sub, idx, circ, dd)
		dirs[k] = dd
	}
	var files []string
	filepath.Walk(filepath.Join(dirs[0], "garbled"), func(p string, info os.FileInfo, err error) error {
		if err == nil && !info.IsDir() {
			rel, _ := filepath.Rel(dirs[0], p)
			files = append(files, rel)
		}
		return nil
	})
	sort.Strings(files)
	for _, rel := range files {
		x, _ := os.ReadFile(filepath.Join(dirs[0], rel))
		y, err := os.ReadFile(filepath.Join(dirs[1], rel))
		if err != nil {
			return "garbled file only in one build: " + rel
		}
		if string(x) != string(y) {
			xl, yl := strings.Split(string(x), "\n"), strings.Split(string(y), "\n")
			for i := range xl {
				if i >= len(yl) || xl[i] != yl[i] {
					other := ""
					if i < len(yl) {
						other = yl[i]
					}
					return fmt.Sprintf("first differing garbled file: %s, line %d:\n  A: %s\n  B: %s", rel, i+1, h.Clip(xl[i], 300), h.Clip(other, 300))
				}
			}
			return "first differing garbled file: " + rel
		}
	}
	return "the -debugdir garbled sources are identical (or the difference did not recur)"
}

func drawCirc(t *rapid.T, i int) circumstance {
	var circ circumstance
	caches := []string{"cold", "cold", "partial", "warm"}
	if i == 0 {
		caches = []string{"cold"}
	}
	circ.Cache = rapid.SampledFrom(caches).Draw(t, fmt.Sprintf("cache%d", i))
	circ.P = rapid.SampledFrom([]int{1, 2, 4, 16}).Draw(t, fmt.Sprintf("p%d", i))
	circ.SrcDir = rapid.SampledFrom([]string{"src", "a", "a-much-longer/source tree/location.v2", "s/r/c"}).Draw(t, fmt.Sprintf("src%d", i))
	circ.TmpDir = rapid.SampledFrom([]string{"tmp", "t", "another/temporary directory"}).Draw(t, fmt.Sprintf("tmp%d", i))
	circ.DelayMs = rapid.SampledFrom([]int{0, 0, 1100}).Draw(t, fmt.Sprintf("delay%d", i))
	circ.TmpIn = rapid.SampledFrom([]string{"", "", "root", "pkg"}).Draw(t, fmt.Sprintf("tmpin%d", i))
	return circ
}

func TestC03(t *testing.T) {
	rc.Check(t, func(t *rapid.T) {
		var c c03Case
		cfgName := rapid.SampledFrom([]string{"default", "literals", "tiny", "seed", "seed+literals+tiny", "ctrlflow", "ctrlflow", "ctrlflow+literals", "ctrlflow+seed"}).Draw(t, "cfg")
		c.Cfg = configByName(cfgName, 0)
		c.Spec = progen.Draw(t, progen.Options{Kinds: c03Kinds(c.Cfg.ControlFlow), MinPkgs: 1, MaxPkgs: 4, MinFeats: 2, MaxFeats: 6, NoExit: true})
		c.Spec.Args = nil
		n := rapid.IntRange(2, 3).Draw(t, "ncirc")
		for i := 0; i < n; i++ {
			c.Circs = append(c.Circs, drawCirc(t, i))
		}
		if k := c03Excluded(c); k != "" {
			stats.Excluded(k)
			return
		}
		v, prog, labels, nt := c03Run(c)
		var cs []string
		for _, circ := range c.Circs {
			cs = append(cs, fmt.Sprintf("%s/p%d", circ.Cache, circ.P))
		}
		stats.Case(stats.Desc(prog.FeatureSet(), c.Cfg.Class(), strings.Join(cs, "+")), nt, labels,
			map[string]any{"features": prog.FeatureSet(), "config": c.Cfg.Key(), "circumstances": c.Circs})
		if v != nil {
			dir := dumpViolation(v, "TestC03Replay", c, prog)
			t.Fatalf("%s: %s\nreplay: %s", v.Key, h.Clip(v.Msg, 3000), dir)
		}
	})
}

// c03Excluded steers around configurations with an open known finding.
func c03Excluded(c c03Case) string {
	excl := os.Getenv("VERIF_EXCLUDE")
	if c.Cfg.ControlFlow && strings.Contains(excl, "C03/binary-differs/ctrlflow") {
		for _, f := range c.Spec.Feats {
			if f.Kind == "ctrlflow" {
				return "C03/binary-differs/ctrlflow"
			}
		}
	}
	return ""
}

func c03Frozen(key string) c03Case {
	hard := 3 // xor,delegate_table
	if strings.HasSuffix(key, "-varorder") {
		hard = 0 // plain flattening: only the order of generated var specs can differ
	}
	spec := progen.Spec{ModPath: "zqsimple", Pkgs: []progen.PkgSpec{{Name: "main"}, {Dir: "pkzq1w", Name: "pkzq1w"}},
		Feats: []progen.Feat{{Kind: "ctrlflow", Prov: 1, User: 0, Imp: "plain", P: []int{1, 0, 0, hard}}, {Kind: "ctrlflow", Prov: 1, User: 0, Imp: "plain", P: []int{0, 0, 0, 0}}}}
	circs := []circumstance{{Cache: "cold", P: 4, SrcDir: "src", TmpDir: "tmp"}, {Cache: "cold", P: 4, SrcDir: "src", TmpDir: "tmp"}, {Cache: "cold", P: 1, SrcDir: "a", TmpDir: "t"}}
	return c03Case{Spec: spec, Cfg: configByName("ctrlflow+seed", 0), Circs: circs}
}

func TestC03Replay(t *testing.T) {
	rc.Fixed(t, func() {
		var c c03Case
		if k := os.Getenv("VERIF_FINDING"); k != "" {
			c = c03Frozen(k)
		} else {
			loadReplay(&c)
		}
		// nondeterminism is a distribution: repeat the case a few times
		for rep := 0; rep < 3; rep++ {
			v, prog, labels, nt := c03Run(c)
			stats.Case(prog.FeatureSet(), nt, labels, nil)
			if v != nil {
				stats.Violate(v.Key, v.Msg, nil)
				t.Errorf("%s: %s", v.Key, v.Msg)
				return
			}
		}
	})
}
