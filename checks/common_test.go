package checks

import (
	"encoding/json"
	"fmt"
	"os"
	"path/filepath"
	"sort"
	"strings"
	"sync/atomic"

	"pgregory.net/rapid"
	"verif/h"
	"verif/progen"
	"verif/rc"
	"verif/stats"
)

// workRoot is the scratch directory of this test process.
func workRoot() string {
	if d := os.Getenv("VERIF_WORK"); d != "" {
		return d
	}
	d, err := os.MkdirTemp("", "verif-checks-")
	h.Must(err)
	return d
}

var caseCounter atomic.Int64

// caseDir makes a fresh directory for one case.
func caseDir() string {
	d := filepath.Join(workRoot(), fmt.Sprintf("c%05d", caseCounter.Add(1)))
	h.Must(os.MkdirAll(d, 0o755))
	return d
}

// verdict describes a violation found by a case (nil = property held).
type verdict struct {
	Key   string
	Msg   string
	Files map[string]string // extra files for the replay directory
}

func violationf(key, format string, a ...any) *verdict {
	return &verdict{Key: key, Msg: fmt.Sprintf(format, a...)}
}

// replayMeta is embedded in every dumped case.
type replayMeta struct {
	ReplayTest string `json:"replay_test"`
	ReplayKind string `json:"replay_kind"`
}

// dumpViolation writes the replay directory for a failing case.
func dumpViolation(v *verdict, replayTest string, c any, prog *progen.Program) string {
	files := map[string]string{}
	for k, val := range v.Files {
		files[k] = val
	}
	raw, _ := json.Marshal(c)
	var m map[string]any
	json.Unmarshal(raw, &m)
	if m == nil {
		m = map[string]any{}
	}
	m["replay_test"] = replayTest
	m["replay_kind"] = "e2e"
	data, _ := json.MarshalIndent(m, "", " ")
	files["case.json"] = string(data)
	if prog != nil {
		for name, content := range prog.Files {
			files["module/"+name] = content
		}
	}
	return stats.Violate(v.Key, v.Msg, files)
}

// loadReplay reads case.json of a replay run into c.
func loadReplay(c any) {
	data, err := os.ReadFile(filepath.Join(rc.ReplayCase(), "case.json"))
	if err != nil {
		rc.Abort("reading replay case: %v", err)
	}
	if err := json.Unmarshal(data, c); err != nil {
		rc.Abort("parsing replay case: %v", err)
	}
}

// Fixed seeds used for -seed configurations (base64 of >= 8 bytes). Each
// distinct seed is a distinct build configuration, so the set is small.
var fixedSeeds = []string{"AAECAwQFBgc", "c2VlZHNlZWRzZWVk", "/+7dzLuqmYg"}

// drawConfig draws a garble configuration from the standard set.
func drawConfig(t *rapid.T, label string, allowModOnly bool) h.Config {
	names := []string{"default", "tiny", "literals", "seed", "literals+tiny", "seed+literals+tiny"}
	if allowModOnly {
		names = append(names, "modonly", "modonly+literals")
	}
	return configByName(rapid.SampledFrom(names).Draw(t, label), rapid.IntRange(0, rc.Pick(0, len(fixedSeeds)-1)).Draw(t, label+"seed"))
}

// modOnlyPattern matches every module path progen can draw and nothing in std.
const modOnlyPattern = "example.com,zqmod.test,zq.example.org,zqsimple"

func configByName(name string, seedIdx int) h.Config {
	var c h.Config
	for _, part := range strings.Split(name, "+") {
		switch part {
		case "tiny":
			c.Tiny = true
		case "literals":
			c.Literals = true
		case "seed":
			c.Seed = fixedSeeds[seedIdx%len(fixedSeeds)]
		case "seedlong":
			c.Seed = fixedSeeds[1] // 12 bytes: longer than the 8 bytes math/rand is seeded with
		case "modonly":
			c.GOGARBLE = modOnlyPattern
		case "ctrlflow":
			c.ControlFlow = true
		}
	}
	return c
}

// runProg runs a built program with args inside the box environment.
func runProg(box *h.Box, dir, bin string, args []string) h.Result {
	return h.Run(h.Cmd{Dir: dir, Env: box.Env(h.Config{}, "GOTRACEBACK=none"), Args: append([]string{bin}, args...), Timeout: 60e9})
}

func sortedKeys(m map[string]bool) []string {
	var ks []string
	for k := range m {
		ks = append(ks, k)
	}
	sort.Strings(ks)
	return ks
}

// plainBox returns a box for regular go builds: a private copy of the plain base.
func plainBox(parent string) *h.Box {
	b := h.NewBox(filepath.Join(parent, "plainbox"), "")
	h.CopyTree(h.PlainBase(), b.GoCache)
	return b
}

// sharedPlain is a per-process box for plain twin builds (the regular
// toolchain is the reference, not the subject, so it may keep its cache).
var sharedPlainBox *h.Box

func sharedPlain() *h.Box {
	if sharedPlainBox == nil {
		sharedPlainBox = plainBox(workRoot())
	}
	return sharedPlainBox
}
