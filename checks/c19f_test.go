package checks

// C19, second unit — "-debugdir refuses to reuse a non-empty directory that
// lacks its marker and leaves it untouched", over many kinds of targets that
// are not garble's. A refusal happens before anything is built, so these
// cases are cheap and many of them run per invocation.

import (
	"fmt"
	"os"
	"path/filepath"
	"strings"
	"sync"
	"testing"

	"pgregory.net/rapid"
	"verif/h"
	"verif/rc"
	"verif/stats"
)

type c19fCase struct {
	Target string `json:"target"` // kind of pre-existing target
	Form   string `json:"form"`   // how the path is spelled on the command line
	Cmd    string `json:"cmd"`    // build | run | test
	Names  []int  `json:"names"`  // entries of a foreign directory (indices into c19fNames)
}

var c19fTargets = []string{"file", "empty-file", "symlink-file", "symlink-dir", "dir-files", "dir-hidden-only", "dir-marker-lookalike", "dir-marker-deeper", "dir-trees-no-marker", "symlink-symlink-dir"}
var c19fForms = []string{"abs", "rel", "rel-dotdot", "trailing-slash", "eq-form"}
var c19fNames = []string{"notes.txt", ".hidden", "source/keep.go", "garbled/keep.go", "sub/dir/deep.txt", ".garble-debugdir.bak", "garble-debugdir", "Makefile", ".git/HEAD"}

var (
	c19fOnce sync.Once
	c19fBox  *h.Box
)

// c19fSharedBox is warm for the default configuration, so that a garble which
// wrongly accepts a target finishes its build in seconds. What is judged is
// the file system around the target, never the cache.
func c19fSharedBox() *h.Box {
	c19fOnce.Do(func() { c19fBox = h.NewCaseBox(workRoot(), h.Config{}, h.LevelStd) })
	return c19fBox
}

func c19fRun(c c19fCase) (v *verdict, labels []string) {
	dir := caseDir()
	defer h.RemoveAll(dir)
	labels = []string{"target:" + c.Target, "form:" + c.Form, "cmd:" + c.Cmd}
	src := filepath.Join(dir, "work", "src")
	h.WriteFiles(src, map[string]string{
		"go.mod":       "module zqsimple/c19f\n\ngo 1.26\n",
		"main.go":      "package main\n\nfunc main() { println(\"c19f\") }\n",
		"main_test.go": "package main\n\nimport \"testing\"\n\nfunc TestNothing(t *testing.T) {}\n",
	})
	parent := filepath.Join(dir, "work", "targets")
	outside := filepath.Join(dir, "work", "elsewhere")
	os.MkdirAll(parent, 0o755)
	os.MkdirAll(outside, 0o755)
	dd := filepath.Join(parent, "dbg")
	fill := func(root string) {
		files := map[string]string{}
		for _, n := range c.Names {
			name := c19fNames[n%len(c19fNames)]
			files[name] = "user data in " + name + "\n"
		}
		if len(files) == 0 {
			files["notes.txt"] = "user data\n"
		}
		h.WriteFiles(root, files)
	}
	switch c.Target {
	case "file":
		os.WriteFile(dd, []byte("a trace the user wrote earlier\n"), 0o644)
	case "empty-file":
		os.WriteFile(dd, nil, 0o644)
	case "symlink-file":
		os.WriteFile(filepath.Join(outside, "journal.log"), []byte("journal\n"), 0o644)
		os.Symlink(filepath.Join(outside, "journal.log"), dd)
	case "symlink-dir":
		fill(filepath.Join(outside, "realdir"))
		os.Symlink(filepath.Join(outside, "realdir"), dd)
	case "symlink-symlink-dir":
		fill(filepath.Join(outside, "realdir"))
		os.Symlink(filepath.Join(outside, "realdir"), filepath.Join(outside, "hop"))
		os.Symlink(filepath.Join(outside, "hop"), dd)
	case "dir-files":
		fill(dd)
	case "dir-hidden-only":
		h.WriteFiles(dd, map[string]string{".hidden": "x\n"})
	case "dir-marker-lookalike":
		h.WriteFiles(dd, map[string]string{".garble-debugdir-old": "", ".garble-debugdi": "", "garble-debugdir": "", "data.txt": "d\n"})
	case "dir-marker-deeper":
		h.WriteFiles(dd, map[string]string{"sub/.garble-debugdir": "", "sub/data.txt": "d\n"})
	case "dir-trees-no-marker":
		h.WriteFiles(dd, map[string]string{"source/zqsimple/c19f/main.go": "package main\n", "garbled/zqsimple/c19f/main.go": "package main\n"})
	}
	arg := dd
	switch c.Form {
	case "rel":
		arg, _ = filepath.Rel(src, dd)
	case "rel-dotdot":
		rel, _ := filepath.Rel(src, dd)
		arg = filepath.Join("..", "src") + string(filepath.Separator) + rel // ../src/../targets/dbg, not cleaned
	case "trailing-slash":
		arg = dd + "/"
	}
	flag := []string{"-debugdir=" + arg}
	if c.Form == "eq-form" {
		flag = []string{"-debugdir", arg}
	}
	var args []string
	switch c.Cmd {
	case "build":
		args = []string{"build", "-o", filepath.Join(dir, "out.bin"), "."}
	case "run":
		args = []string{"run", "."}
	default:
		args = []string{"test", "."}
	}
	box := c19fSharedBox()
	before := snapshot(filepath.Join(dir, "work"))
	tmpBefore, _ := os.ReadDir(box.Tmp)
	res := h.Run(h.Cmd{Dir: src, Env: box.Env(h.Config{}), Args: append(append([]string{box.GarbleBin}, flag...), args...), Timeout: 15 * 60e9})
	if res.TimedOut || res.Exit < 0 {
		rc.Abort("garble timed out or was killed from outside: %s", res.Brief())
	}
	describe := fmt.Sprintf("target %s, garble %s %s\n%s", c.Target, strings.Join(flag, " "), strings.Join(args, " "), res.Brief())
	if d := diffSnap(before, snapshot(filepath.Join(dir, "work")), func(string) bool { return false }); len(d) > 0 {
		return violationf("C19/foreign-debugdir-touched", "a -debugdir target garble does not own (or its surroundings) was modified:\n  %s\n%s", strings.Join(d, "\n  "), describe), labels
	}
	if res.Exit == 0 {
		return violationf("C19/foreign-debugdir-accepted", "a -debugdir target that is not an empty directory and carries no marker was not refused:\n%s", describe), labels
	}
	if tmpAfter, _ := os.ReadDir(box.Tmp); len(tmpAfter) > len(tmpBefore) {
		return violationf("C19/tmpdir-leftovers", "TMPDIR holds %d new entries after the refused command\n%s", len(tmpAfter)-len(tmpBefore), describe), labels
	}
	return nil, labels
}

func TestC19Foreign(t *testing.T) {
	rc.Check(t, func(t *rapid.T) {
		var c c19fCase
		c.Target = rapid.SampledFrom(c19fTargets).Draw(t, "target")
		c.Form = rapid.SampledFrom(c19fForms).Draw(t, "form")
		// `garble test` lists the test dependencies before it looks at -debugdir, which costs a minute on a
		// cache that holds no export data for them; the -debugdir handling is the same code for every command
		c.Cmd = rapid.SampledFrom([]string{"build", "build", "run"}).Draw(t, "cmd")
		c.Names = rapid.SliceOfN(rapid.IntRange(0, len(c19fNames)-1), 1, 4).Draw(t, "names")
		v, labels := c19fRun(c)
		stats.Case(stats.Desc(c.Target, c.Form, c.Cmd), true, labels, map[string]any{"target": c.Target, "form": c.Form, "cmd": c.Cmd})
		if v != nil {
			dir := dumpViolation(v, "TestC19ForeignReplay", c, nil)
			t.Fatalf("%s: %s\nreplay: %s", v.Key, h.Clip(v.Msg, 3000), dir)
		}
	})
}

func TestC19ForeignReplay(t *testing.T) {
	rc.Fixed(t, func() {
		var c c19fCase
		loadReplay(&c)
		v, labels := c19fRun(c)
		stats.Case("replay", true, labels, nil)
		if v != nil {
			stats.Violate(v.Key, v.Msg, nil)
			t.Errorf("%s: %s", v.Key, v.Msg)
		}
	})
}
