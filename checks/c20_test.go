package checks

// C20 (whole-command part): garble driven against a stub go command.

import (
	"bufio"
	"encoding/json"
	"fmt"
	"os"
	"path/filepath"
	"slices"
	"strings"
	"sync"
	"testing"

	"pgregory.net/rapid"
	"verif/h"
	"verif/rc"
	"verif/stats"
)

type c20StubCase struct {
	Cmd  string   `json:"cmd"` // build | test | run | reverse | map
	Args []string `json:"args"`
}

type stubEnv struct {
	root   string // fake GOROOT
	modDir string
}

var (
	stubOnce sync.Once
	stub     stubEnv
)

func stubSetup() stubEnv {
	stubOnce.Do(func() {
		root := filepath.Join(workRoot(), "stubroot")
		h.Must(os.MkdirAll(filepath.Join(root, "bin"), 0o755))
		src := filepath.Join(h.VerifDir, "checks", "testdata", "stubgo")
		tmp := filepath.Join(workRoot(), "stubsrc")
		h.WriteFiles(tmp, map[string]string{"go.mod": "module stubgo\n\ngo 1.26\n"})
		data, err := os.ReadFile(filepath.Join(src, "main.go"))
		h.Must(err)
		h.WriteFiles(tmp, map[string]string{"main.go": string(data)})
		r := h.Run(h.Cmd{Dir: tmp, Env: h.CleanEnv("HOME="+os.Getenv("HOME"), "CGO_ENABLED=0", "GOFLAGS="), Args: []string{"go", "build", "-o", filepath.Join(root, "bin", "go"), "."}})
		if !r.OK() {
			rc.Abort("building the stub go command: %s", r.Brief())
		}
		mod := filepath.Join(workRoot(), "stubmod")
		h.WriteFiles(mod, map[string]string{
			"go.mod":    "module stubmod\n\ngo 1.26\n",
			"main.go":   "package main\n\nfunc main() {}\n",
			"rt/rt.go":  "package runtime\n",
			"trace.txt": "nothing obfuscated here\n",
		})
		stub = stubEnv{root: root, modDir: mod}
	})
	return stub
}

type stubCall struct {
	Argv []string `json:"argv"`
	Cwd  string   `json:"cwd"`
}

// runStub runs garble <cmd> args against the stub and returns the spawned go commands.
func runStub(c c20StubCase) (h.Result, []stubCall) {
	se := stubSetup()
	dir := caseDir()
	defer h.RemoveAll(dir)
	bin, _ := h.GarbleBinary()
	logf := filepath.Join(dir, "stub.log")
	env := h.CleanEnv(
		"PATH="+filepath.Join(se.root, "bin")+":/usr/bin:/bin",
		"HOME="+dir, "TMPDIR="+dir, "GARBLE_CACHE="+filepath.Join(dir, "gc"),
		"STUB_LOG="+logf, "STUB_GOROOT="+se.root, "STUB_MODDIR="+se.modDir,
	)
	argv := append([]string{bin, c.Cmd}, c.Args...)
	res := h.Run(h.Cmd{Dir: se.modDir, Env: env, Args: argv, Timeout: 60e9})
	var calls []stubCall
	if f, err := os.Open(logf); err == nil {
		sc := bufio.NewScanner(f)
		sc.Buffer(nil, 1<<20)
		for sc.Scan() {
			var call stubCall
			if json.Unmarshal(sc.Bytes(), &call) == nil {
				calls = append(calls, call)
			}
		}
		f.Close()
	}
	return res, calls
}

// goModel mirrors the in-process reference model; it is rebuilt here from the
// real go command's help text.
type goModel struct{ Bool, Value, Build map[string]bool }

var (
	goModelOnce sync.Once
	goModelVal  goModel
)

func loadGoModel() goModel {
	goModelOnce.Do(func() {
		m := goModel{map[string]bool{}, map[string]bool{}, map[string]bool{}}
		for _, topic := range []string{"build", "testflag", "test", "run"} {
			r := h.Run(h.Cmd{Env: h.CleanEnv("HOME=" + os.Getenv("HOME")), Args: []string{"go", "help", topic}})
			if !r.OK() {
				rc.Abort("go help %s: %s", topic, r.Brief())
			}
			for _, line := range strings.Split(r.Stdout, "\n") {
				if !strings.HasPrefix(line, "\t-") {
					continue
				}
				f := strings.Fields(line)
				name := f[0]
				if name == "-args" || strings.ContainsAny(name, "=,[") {
					continue
				}
				if len(f) == 1 {
					m.Bool[name] = true
				} else {
					m.Value[name] = true
				}
				if topic == "build" {
					m.Build[name] = true
				}
			}
		}
		m.Value["-o"] = true
		if !m.Bool["-race"] || !m.Value["-tags"] || len(m.Bool) < 15 {
			rc.Abort("unexpected go help output")
		}
		goModelVal = m
	})
	return goModelVal
}

func canon(arg string) (string, bool) {
	if strings.HasPrefix(arg, "--") {
		arg = arg[1:]
	}
	name, _, has := strings.Cut(arg, "=")
	return name, has
}

func (m goModel) split(all []string) (flags, args []string) {
	for i := 0; i < len(all); i++ {
		if !strings.HasPrefix(all[i], "-") {
			return all[:i:i], all[i:]
		}
		name, has := canon(all[i])
		if has || m.Bool[name] {
			continue
		}
		i++
	}
	return all, nil
}

var garbleOwnFlags = []string{"-literals", "-tiny", "-debug", "-seed=AAECAwQFBgc", "-debugdir=out", "-seed", "-debugdir"}

func isGarbleFlag(a string) bool {
	name, _ := canon(a)
	switch name {
	case "-literals", "-tiny", "-debug", "-seed", "-debugdir":
		return true
	}
	return false
}

func optionalForward(name string) bool {
	switch name {
	case "-a", "-n", "-v", "-x", "-work", "-json":
		return true
	}
	return false
}

func c20StubRun(c c20StubCase) (*verdict, []string, string, bool) {
	m := loadGoModel()
	flags, pkgs := m.split(c.Args)
	// classify
	garbleFlagInFlagPos, unknownToBuild := false, ""
	var wantFwd []string
	kinds := map[string]bool{}
	for i := 0; i < len(flags); i++ {
		a := flags[i]
		name, has := canon(a)
		if isGarbleFlag(a) {
			garbleFlagInFlagPos = true
		}
		if !m.Build[name] && unknownToBuild == "" {
			unknownToBuild = name
		}
		fwd := m.Build[name] && !optionalForward(name) && name != "-trimpath" && name != "-toolexec" && name != "-buildvcs"
		norm := a
		if strings.HasPrefix(a, "--") {
			norm = a[1:]
			kinds["dd"] = true
		}
		if has || m.Bool[name] {
			if m.Bool[name] && !has {
				kinds["bool"] = true
			} else {
				kinds["eq"] = true
			}
			if fwd {
				wantFwd = append(wantFwd, norm)
			}
			continue
		}
		kinds["sep"] = true
		if i+1 < len(flags) {
			if strings.HasPrefix(flags[i+1], "-") {
				kinds["flaglike-value"] = true
			}
			if fwd {
				wantFwd = append(wantFwd, norm, flags[i+1])
			}
		} else if fwd {
			wantFwd = append(wantFwd, norm)
		}
		i++
	}
	labels := []string{"cmd:" + c.Cmd}
	for k := range kinds {
		labels = append(labels, "form:"+k)
	}
	slices.Sort(labels)
	desc := stats.Desc(c.Cmd, stats.SortedSet(kinds), fmt.Sprint(len(flags)), fmt.Sprint(len(pkgs)), fmt.Sprint(garbleFlagInFlagPos), fmt.Sprint(unknownToBuild != ""))
	nontrivial := kinds["bool"] && kinds["sep"] && len(pkgs) > 0

	res, calls := runStub(c)
	if res.TimedOut || res.Err != nil {
		rc.Abort("garble against the stub did not run: %s", res.Brief())
	}
	var list, cmdCall *stubCall
	for i := range calls {
		switch calls[i].Argv[0] {
		case "list":
			if list == nil {
				list = &calls[i]
			}
		case "build", "test", "run":
			cmdCall = &calls[i]
		}
	}
	describe := func() string {
		var b strings.Builder
		fmt.Fprintf(&b, "garble %s %q\nexit=%d stderr=%s\n", c.Cmd, c.Args, res.Exit, h.Clip(res.Stderr, 800))
		for _, cl := range calls {
			fmt.Fprintf(&b, "spawned: go %q\n", cl.Argv)
		}
		return b.String()
	}

	inspectOnly := c.Cmd == "reverse" || c.Cmd == "map"
	switch {
	case garbleFlagInFlagPos:
		labels = append(labels, "expect:reject-garble-flag")
		if res.Exit == 0 || cmdCall != nil {
			return violationf("C20/garble-flag-after-command-accepted", "a garble flag placed after the command was not rejected:\n%s", describe()), labels, desc, true
		}
		return nil, labels, desc, true
	case inspectOnly && unknownToBuild != "":
		labels = append(labels, "expect:reject-unknown-flag")
		if res.Exit == 0 {
			return violationf("C20/unknown-flag-accepted", "garble %s accepted the flag %s, which is not a build flag:\n%s", c.Cmd, unknownToBuild, describe()), labels, desc, true
		}
		return nil, labels, desc, true
	case inspectOnly:
		// listing must carry the build flags; success or failure afterwards depends on the files
		if list == nil {
			if len(pkgs) == 0 {
				return nil, labels, desc, nontrivial // usage error: no package given
			}
			return violationf("C20/no-list", "no package listing was spawned:\n%s", describe()), labels, desc, nontrivial
		}
	default:
		labels = append(labels, "expect:pass-through")
		if res.Exit != 0 || list == nil || cmdCall == nil {
			key := "C20/rejected-valid-command-line"
			if strings.Contains(res.Stderr, "garble flags must precede command") {
				key = "C20/value-mistaken-for-garble-flag"
			}
			return violationf(key, "a command line the go command accepts was not passed through:\n%s", describe()), labels, desc, nontrivial
		}
	}

	// the listing: fixed prefix, forwarded flags, then exactly the package arguments
	la := list.Argv
	i := 1
	for i < len(la) && (la[i] == "-json" || la[i] == "-export" || la[i] == "-compiled" || la[i] == "-e" || la[i] == "-deps" || la[i] == "-trimpath" || la[i] == "-buildvcs=false") {
		i++
	}
	var gotFwd []string
	rest := la[i:]
	j := 0
	for j < len(rest) && strings.HasPrefix(rest[j], "-") {
		name, has := canon(rest[j])
		if rest[j] == "-test" {
			j++
			continue
		}
		if optionalForward(name) {
			j++
			continue
		}
		gotFwd = append(gotFwd, rest[j])
		if !has && !m.Bool[name] && j+1 < len(rest) {
			j++
			gotFwd = append(gotFwd, rest[j])
		}
		j++
	}
	if !slices.Equal(gotFwd, wantFwd) {
		return violationf("C20/list-flags-differ", "build-affecting flags handed to the package listing are %q, expected %q:\n%s", gotFwd, wantFwd, describe()), labels, desc, nontrivial
	}
	gotPkgs := rest[j:]
	wantPkgs := pkgs
	if inspectOnly && c.Cmd == "reverse" && len(pkgs) > 0 {
		wantPkgs = pkgs[:1]
	}
	if c.Cmd == "run" && len(pkgs) > 0 {
		// go run: the leading .go files or the first argument name the package,
		// the rest are the program's arguments
		n := 0
		for n < len(pkgs) && strings.HasSuffix(pkgs[n], ".go") {
			n++
		}
		if n == 0 {
			n = 1
		}
		wantPkgs = pkgs[:n]
	}
	if len(wantPkgs) == 0 {
		wantPkgs = []string{"."}
	}
	if len(gotPkgs) < len(wantPkgs) || !slices.Equal(gotPkgs[:len(wantPkgs)], wantPkgs) {
		return violationf("C20/list-packages-differ", "package arguments handed to the listing start with %q, expected %q:\n%s", gotPkgs[:min(len(gotPkgs), len(wantPkgs)+1)], wantPkgs, describe()), labels, desc, nontrivial
	}
	for _, extra := range gotPkgs[len(wantPkgs):] {
		if strings.HasPrefix(extra, "-") || strings.HasPrefix(extra, ".") || strings.HasSuffix(extra, ".go") {
			return violationf("C20/list-packages-differ", "unexpected extra listing argument %q:\n%s", extra, describe()), labels, desc, nontrivial
		}
	}
	if cmdCall != nil {
		ca := cmdCall.Argv
		if len(ca) < 1+len(c.Args) || !slices.Equal(ca[len(ca)-len(c.Args):], c.Args) {
			return violationf("C20/user-args-changed", "the user's flags and packages were not passed to go %s unchanged and in order:\n%s", c.Cmd, describe()), labels, desc, nontrivial
		}
		for _, a := range ca[1 : len(ca)-len(c.Args)] {
			ok := a == "-trimpath" || a == "-buildvcs=false" || strings.HasPrefix(a, "-toolexec=") || a == "-vet=off" || a == "-debug-actiongraph" || strings.HasSuffix(a, "action-graph.json")
			if !ok {
				return violationf("C20/unexpected-prefix", "unexpected argument %q before the user's arguments:\n%s", a, describe()), labels, desc, nontrivial
			}
		}
	}
	return nil, labels, desc, nontrivial
}

func c20StubExcluded(c c20StubCase) string {
	excl := os.Getenv("VERIF_EXCLUDE")
	if excl == "" {
		return ""
	}
	m := loadGoModel()
	flags, _ := m.split(c.Args)
	for i := 0; i < len(flags); i++ {
		name, has := canon(flags[i])
		if strings.HasPrefix(flags[i], "--") && m.Bool[name] && strings.Contains(excl, "double-dash-bool") {
			return "C20/split-differs/double-dash-bool"
		}
		if name == "-artifacts" && strings.Contains(excl, "bool-artifacts") {
			return "C20/split-differs/bool-artifacts"
		}
		if !has && !m.Bool[name] {
			i++
		}
	}
	return ""
}

func TestC20Stub(t *testing.T) {
	m := loadGoModel()
	boolNames := sortedKeys(m.Bool)
	valueNames := sortedKeys(m.Value)
	values := []string{"x", "1", "./pkg", "-x", "-debug", "out-tiny", "a=b", "-race", "main.go", "pat1,pat2", "-tiny", "x-literals", "-seed=abc", "debugdir", "my-seed"}
	rc.Check(t, func(t *rapid.T) {
		var c c20StubCase
		c.Cmd = rapid.SampledFrom([]string{"build", "build", "test", "test", "run", "reverse", "map"}).Draw(t, "cmd")
		n := rapid.IntRange(0, 5).Draw(t, "nflags")
		for i := 0; i < n; i++ {
			dashes := "-"
			if rapid.IntRange(0, 6).Draw(t, "dd") == 0 {
				dashes = "--"
			}
			switch rapid.IntRange(0, 9).Draw(t, "what") {
			case 0:
				c.Args = append(c.Args, rapid.SampledFrom(garbleOwnFlags).Draw(t, "gflag"))
			case 1, 2, 3:
				name := rapid.SampledFrom(boolNames).Draw(t, "bname")
				if name == "-h" || name == "-n" {
					name = "-v"
				}
				c.Args = append(c.Args, dashes+name[1:])
			default:
				name := rapid.SampledFrom(valueNames).Draw(t, "vname")
				if name == "-C" {
					name = "-tags"
				}
				val := rapid.SampledFrom(values).Draw(t, "val")
				if rapid.Bool().Draw(t, "sep") {
					c.Args = append(c.Args, dashes+name[1:], val)
				} else {
					c.Args = append(c.Args, dashes+name[1:]+"="+val)
				}
			}
		}
		npk := rapid.IntRange(0, 2).Draw(t, "npkgs")
		for i := 0; i < npk; i++ {
			if i == 0 {
				c.Args = append(c.Args, rapid.SampledFrom([]string{".", "./...", "./cmd/x", "stubmod", "out-tiny", "pkg-debug"}).Draw(t, "pkg0"))
			} else {
				c.Args = append(c.Args, rapid.SampledFrom([]string{"./b", "trace.txt", "x"}).Draw(t, "pkgN"))
			}
		}
		if k := c20StubExcluded(c); k != "" {
			stats.Excluded(k)
			return
		}
		v, labels, desc, nt := c20StubRun(c)
		stats.Case(desc, nt, labels, map[string]any{"garble": append([]string{c.Cmd}, c.Args...)})
		if v != nil {
			dir := dumpViolation(v, "TestC20StubReplay", c, nil)
			t.Fatalf("%s: %s\nreplay: %s", v.Key, v.Msg, dir)
		}
	})
}

func TestC20StubReplay(t *testing.T) {
	rc.Fixed(t, func() {
		var c c20StubCase
		switch os.Getenv("VERIF_FINDING") {
		case "":
			loadReplay(&c)
		case "C20/value-mistaken-for-garble-flag":
			c = c20StubCase{Cmd: "build", Args: []string{"-o", "out-tiny", "."}}
		case "C20/split-differs/bool-artifacts":
			c = c20StubCase{Cmd: "test", Args: []string{"-artifacts", "./pkg"}}
		case "C20/split-differs/double-dash-bool":
			c = c20StubCase{Cmd: "build", Args: []string{"--trimpath", "./pkg"}}
		default:
			rc.Abort("unknown finding %s", os.Getenv("VERIF_FINDING"))
		}
		v, labels, desc, nt := c20StubRun(c)
		stats.Case(desc, nt, labels, nil)
		if v != nil {
			stats.Violate(v.Key, v.Msg, nil)
			t.Errorf("%s: %s", v.Key, v.Msg)
		}
	})
}
