package main

// C20 — command lines are split the way the go command splits them.
// In-process part: splitFlagsFromArgs / filterForwardBuildFlags against a
// reference model parsed from the go command's own help text.

import (
	"encoding/json"
	"fmt"
	"os"
	"os/exec"
	"path/filepath"
	"regexp"
	"slices"
	"strings"
	"sync"
	"testing"

	"pgregory.net/rapid"
	"verif/rc"
	"verif/stats"
)

// goFlagModel is what `go help build|testflag|test|run` documents.
type goFlagModel struct {
	Bool  map[string]bool // flags documented without an operand
	Value map[string]bool // flags documented with an operand
	Build map[string]bool // the shared build flags of `go help build`
}

var (
	c20ModelOnce sync.Once
	c20Model     goFlagModel
)

var rxHelpFlag = regexp.MustCompile(`^\t-([A-Za-z][A-Za-z0-9_]*)( \S.*)?$`)

func loadGoFlagModel() goFlagModel {
	c20ModelOnce.Do(func() {
		m := goFlagModel{Bool: map[string]bool{}, Value: map[string]bool{}, Build: map[string]bool{}}
		parse := func(topic string, build bool) {
			out, err := exec.Command("go", "help", topic).Output()
			if err != nil {
				rc.Abort("go help %s: %v", topic, err)
			}
			for _, line := range strings.Split(string(out), "\n") {
				sm := rxHelpFlag.FindStringSubmatch(line)
				if sm == nil {
					continue
				}
				name := "-" + sm[1]
				if name == "-args" {
					continue // excluded by the statement
				}
				if sm[2] == "" {
					m.Bool[name] = true
				} else {
					m.Value[name] = true
				}
				if build {
					m.Build[name] = true
				}
			}
		}
		parse("build", true)
		parse("testflag", false)
		parse("test", false)
		parse("run", false)
		// -o is documented in the prose of `go help build` ("The -o flag forces
		// build to write the resulting executable or object to the named output
		// file or directory") and with an operand in `go help test`.
		m.Value["-o"] = true
		if len(m.Bool) < 15 || len(m.Value) < 30 || !m.Bool["-race"] || !m.Value["-tags"] || m.Bool["-tags"] {
			rc.Abort("unexpected go help output: %d boolean, %d value flags", len(m.Bool), len(m.Value))
		}
		c20Model = m
	})
	return c20Model
}

// canonical strips one dash of the "--flag" spelling and any "=value".
func c20Canonical(arg string) (name string, hasValue bool) {
	if strings.HasPrefix(arg, "--") {
		arg = arg[1:]
	}
	name, _, hasValue = strings.Cut(arg, "=")
	return name, hasValue
}

// modelSplit splits the way the go command does: boolean flags take no
// value, every other flag consumes one argument unless written -f=v; the first
// argument that is not a flag starts the package list.
func (m goFlagModel) split(all []string) (flags, args []string) {
	for i := 0; i < len(all); i++ {
		arg := all[i]
		if !strings.HasPrefix(arg, "-") {
			return all[:i:i], all[i:]
		}
		name, hasValue := c20Canonical(arg)
		if hasValue || m.Bool[name] {
			continue
		}
		i++
	}
	return all, nil
}

// Build-affecting flags that garble's internal `go list` must receive: every
// shared build flag except the ones that only change what is printed or
// rebuilt (-a -n -v -x -work -json) and the ones garble always sets itself.
func (m goFlagModel) mustForward(name string) bool {
	if !m.Build[name] {
		return false
	}
	switch name {
	case "-a", "-n", "-v", "-x", "-work", "-json", "-trimpath", "-toolexec", "-buildvcs":
		return false
	}
	return true
}

type c20Case struct {
	ReplayTest string   `json:"replay_test"`
	ReplayKind string   `json:"replay_kind"`
	ReplayPkg  string   `json:"replay_pkg"`
	Args       []string `json:"args"`
}

// c20GenVector draws an argument vector: a flag section followed by package
// arguments (which may look like anything).
func c20GenVector(t *rapid.T, m goFlagModel) (vec []string, labels map[string]bool) {
	labels = map[string]bool{}
	boolNames := sortedKeysC20(m.Bool)
	valueNames := sortedKeysC20(m.Value)
	values := []string{"x", "1", "./pkg", "-x", "-debug", "out-tiny", "a=b", "", "-race", "main.go", "pat1,pat2", "-tiny", "-X=main.v=1 -w", "count", "./...", "-seed=abc", "x-literals", "debugdir"}
	n := rapid.IntRange(0, 6).Draw(t, "nflags")
	for i := 0; i < n; i++ {
		dashes := "-"
		if rapid.IntRange(0, 5).Draw(t, "dd") == 0 {
			dashes = "--"
			labels["form:--f"] = true
		}
		if rapid.Bool().Draw(t, "isbool") {
			name := rapid.SampledFrom(boolNames).Draw(t, "bname")
			switch rapid.IntRange(0, 4).Draw(t, "bform") {
			case 0:
				vec = append(vec, dashes+name[1:]+"="+rapid.SampledFrom([]string{"true", "false", "1", "0"}).Draw(t, "bval"))
				labels["form:-bool=v"] = true
			default:
				vec = append(vec, dashes+name[1:])
				labels["form:-bool"] = true
			}
		} else {
			name := rapid.SampledFrom(valueNames).Draw(t, "vname")
			val := rapid.SampledFrom(values).Draw(t, "val")
			if rapid.Bool().Draw(t, "sep") {
				vec = append(vec, dashes+name[1:], val)
				labels["form:-f v"] = true
				if strings.HasPrefix(val, "-") {
					labels["value-looks-like-flag"] = true
				}
			} else {
				vec = append(vec, dashes+name[1:]+"="+val)
				labels["form:-f=v"] = true
			}
		}
	}
	npk := rapid.IntRange(0, 3).Draw(t, "npkgs")
	for i := 0; i < npk; i++ {
		var a string
		if i == 0 {
			a = rapid.SampledFrom([]string{".", "./...", "./cmd/x", "example.com/m/p", "main.go", "std", "out-tiny", "a=b", "pkg-debug"}).Draw(t, "pkg0")
		} else {
			a = rapid.SampledFrom([]string{"./b", "other.go", "-race", "-tags", "x", "-v", "-run", "-o", "-tiny", "--", "-"}).Draw(t, "pkgN")
		}
		vec = append(vec, a)
	}
	return vec, labels
}

func sortedKeysC20(m map[string]bool) []string {
	var ks []string
	for k := range m {
		ks = append(ks, k)
	}
	slices.Sort(ks)
	return ks
}

func c20Check(m goFlagModel, vec []string) (key, msg string, nontrivial bool, desc string) {
	in := slices.Clone(vec)
	wantFlags, wantArgs := m.split(vec)
	gotFlags, gotArgs := splitFlagsFromArgs(slices.Clone(vec))
	// classification for non-triviality: a boolean flag directly followed by a
	// non-flag argument and a value flag in separated form
	boolThenNonFlag, sepValue := false, false
	kinds := map[string]bool{}
	for i := 0; i < len(wantFlags); i++ {
		name, hasValue := c20Canonical(wantFlags[i])
		switch {
		case hasValue:
			kinds["eq"] = true
		case m.Bool[name]:
			kinds["bool"] = true
			if i+1 == len(wantFlags) && len(wantArgs) > 0 {
				boolThenNonFlag = true
			}
		default:
			kinds["sep"] = true
			sepValue = true
			i++
		}
		if strings.HasPrefix(wantFlags[min(i, len(wantFlags)-1)], "--") {
			kinds["dd"] = true
		}
	}
	nontrivial = boolThenNonFlag && sepValue
	desc = stats.Desc(stats.SortedSet(kinds), fmt.Sprint(len(wantFlags)), fmt.Sprint(len(wantArgs)), fmt.Sprint(boolThenNonFlag))

	if !slices.Equal(gotFlags, wantFlags) || !slices.Equal(gotArgs, wantArgs) {
		return "C20/split-differs/" + c20SplitClass(m, vec), fmt.Sprintf("splitFlagsFromArgs(%q) = flags %q, args %q; the go command splits it into flags %q, args %q", in, gotFlags, gotArgs, wantFlags, wantArgs), nontrivial, desc
	}
	if !slices.Equal(vec, in) {
		return "C20/input-mutated", fmt.Sprintf("splitFlagsFromArgs modified its input: %q -> %q", in, vec), nontrivial, desc
	}

	// Forwarding: every build-affecting flag, with its value, in order.
	var wantFwd []string
	for i := 0; i < len(wantFlags); i++ {
		arg := wantFlags[i]
		name, hasValue := c20Canonical(arg)
		fwd := m.mustForward(name)
		if strings.HasPrefix(arg, "--") {
			arg = arg[1:]
		}
		if hasValue || m.Bool[name] {
			if fwd {
				wantFwd = append(wantFwd, arg)
			}
			continue
		}
		if fwd {
			wantFwd = append(wantFwd, arg)
			if i+1 < len(wantFlags) {
				wantFwd = append(wantFwd, wantFlags[i+1])
			}
		}
		i++
	}
	gotFwd, _ := filterForwardBuildFlags(slices.Clone(wantFlags))
	// optional flags (-a -n -v -x -work -json) may or may not be forwarded: drop them from got
	var gotCore []string
	for i := 0; i < len(gotFwd); i++ {
		name, hasValue := c20Canonical(gotFwd[i])
		switch name {
		case "-a", "-n", "-v", "-x", "-work", "-json":
			continue
		}
		gotCore = append(gotCore, gotFwd[i])
		if !hasValue && !m.Bool[name] && i+1 < len(gotFwd) {
			i++
			gotCore = append(gotCore, gotFwd[i])
		}
	}
	if !slices.Equal(gotCore, wantFwd) {
		return "C20/forward-differs", fmt.Sprintf("filterForwardBuildFlags(%q) = %q; build-affecting flags per `go help build`: %q", wantFlags, gotFwd, wantFwd), nontrivial, desc
	}
	return "", "", nontrivial, desc
}

// c20SplitClass names the shape that makes a split differ (classifier key).
func c20SplitClass(m goFlagModel, vec []string) string {
	for _, a := range vec {
		name, _ := c20Canonical(a)
		if strings.HasPrefix(a, "--") && m.Bool[name] {
			return "double-dash-bool"
		}
	}
	for _, a := range vec {
		if m.Bool[a] && !booleanFlags[a] {
			return "bool" + a
		}
	}
	return "other"
}

func c20Fail(c c20Case, key, msg string) string {
	c.ReplayTest, c.ReplayKind, c.ReplayPkg = "TestVerifC20Replay", "inproc", "."
	data, _ := json.MarshalIndent(c, "", " ")
	return stats.Violate(key, msg, map[string]string{"case.json": string(data)})
}

// c20Excluded reports whether vec has a shape listed as a known finding that
// is still open (VERIF_C20_EXCLUDE is set by the driver from known_findings).
func c20Excluded(m goFlagModel, vec []string) string {
	excl := os.Getenv("VERIF_EXCLUDE")
	if excl == "" {
		return ""
	}
	flags, _ := m.split(vec)
	for _, a := range flags {
		name, _ := c20Canonical(a)
		if strings.HasPrefix(a, "--") && m.Bool[name] && strings.Contains(excl, "C20/split-differs/double-dash-bool") {
			return "C20/split-differs/double-dash-bool"
		}
		if m.Bool[name] && !booleanFlags[name] && strings.Contains(excl, "C20/split-differs/bool"+name) {
			return "C20/split-differs/bool" + name
		}
	}
	return ""
}

func TestVerifC20Split(t *testing.T) {
	m := loadGoFlagModel()
	stats.Note("reference model from go help: %d boolean flags, %d value flags, %d shared build flags", len(m.Bool), len(m.Value), len(m.Build))
	rc.Check(t, func(t *rapid.T) {
		vec, labels := c20GenVector(t, m)
		if k := c20Excluded(m, vec); k != "" {
			stats.Excluded(k)
			return
		}
		key, msg, nt, desc := c20Check(m, vec)
		var ls []string
		for l := range labels {
			ls = append(ls, l)
		}
		slices.Sort(ls)
		stats.Case(desc, nt, ls, map[string]any{"argv": vec})
		if key != "" {
			dir := c20Fail(c20Case{Args: vec}, key, msg)
			t.Fatalf("%s: %s (replay %s)", key, msg, dir)
		}
	})
}

// Laws of flagValue / flagValues / flagSetValue on tool command lines as
// cmd/go produces them (each value-taking flag at most once for set).
func TestVerifC20FlagValue(t *testing.T) {
	names := []string{"-p", "-o", "-trimpath", "-importcfg", "-buildid", "-lang", "-goversion", "-c", "-D", "-I", "-symabis", "-asmhdr", "-embedcfg", "-X", "-extld"}
	bools := []string{"-std", "-complete", "-pack", "-shared", "-nolocalimports", "-+", "-w", "-s"}
	vals := []string{"main", "/tmp/go-build1/b001/_pkg_.a", "/tmp/x=>", "a=b", "", "go1.26", "4", "x/y.z", "$WORK/b001=>;/src=>", "./", "-"}
	rc.Check(t, func(t *rapid.T) {
		type ent struct{ name, val, form string }
		var ents []ent
		var flags []string
		used := map[string]bool{}
		n := rapid.IntRange(0, 8).Draw(t, "n")
		for i := 0; i < n; i++ {
			if rapid.IntRange(0, 3).Draw(t, "b") == 0 {
				flags = append(flags, rapid.SampledFrom(bools).Draw(t, "bool"))
				continue
			}
			name := rapid.SampledFrom(names).Draw(t, "name")
			if used[name] && name != "-X" && name != "-I" {
				continue
			}
			used[name] = true
			val := rapid.SampledFrom(vals).Draw(t, "val")
			if rapid.Bool().Draw(t, "eq") {
				flags = append(flags, name+"="+val)
				ents = append(ents, ent{name, val, "eq"})
			} else {
				if val == "-" || strings.HasPrefix(val, "-") {
					val = "v"
				}
				flags = append(flags, name, val)
				ents = append(ents, ent{name, val, "sep"})
			}
		}
		nfiles := rapid.IntRange(0, 3).Draw(t, "files")
		for i := 0; i < nfiles; i++ {
			flags = append(flags, fmt.Sprintf("/tmp/src/f%d.go", i))
		}
		orig := slices.Clone(flags)
		// read laws
		for _, name := range names {
			var want []string
			for _, e := range ents {
				if e.name == name {
					want = append(want, e.val)
				}
			}
			got := slices.Collect(flagValues(flags, name))
			if !slices.Equal(got, want) && !(len(got) == 0 && len(want) == 0) {
				dir := c20Fail(c20Case{Args: orig}, "C20/flagValues", fmt.Sprintf("flagValues(%q, %q) = %q, want %q", orig, name, got, want))
				t.Fatalf("flagValues(%q, %q) = %q, want %q (replay %s)", orig, name, got, want, dir)
			}
			last := ""
			if len(want) > 0 {
				last = want[len(want)-1]
			}
			if g := flagValue(flags, name); g != last {
				dir := c20Fail(c20Case{Args: orig}, "C20/flagValue", fmt.Sprintf("flagValue(%q, %q) = %q, want %q", orig, name, g, last))
				t.Fatalf("flagValue(%q, %q) = %q, want %q (replay %s)", orig, name, g, last, dir)
			}
		}
		// write law on a flag that occurs at most once (as garble's callers do)
		setName := rapid.SampledFrom([]string{"-p", "-trimpath", "-importcfg", "-buildid"}).Draw(t, "setname")
		newVal := rapid.SampledFrom(vals).Draw(t, "newval")
		before := map[string]string{}
		for _, name := range names {
			before[name] = flagValue(flags, name)
		}
		after := flagSetValue(slices.Clone(flags), setName, newVal)
		if g := flagValue(after, setName); g != newVal {
			dir := c20Fail(c20Case{Args: orig}, "C20/flagSetValue", fmt.Sprintf("after flagSetValue(%q, %q, %q) flagValue gives %q", orig, setName, newVal, g))
			t.Fatalf("after flagSetValue(%q, %q, %q) flagValue gives %q (replay %s)", orig, setName, newVal, g, dir)
		}
		for _, name := range names {
			if name != setName && flagValue(after, name) != before[name] {
				dir := c20Fail(c20Case{Args: orig}, "C20/flagSetValue-other", fmt.Sprintf("flagSetValue(%q, %q, %q) changed %s from %q to %q", orig, setName, newVal, name, before[name], flagValue(after, name)))
				t.Fatalf("flagSetValue changed another flag (replay %s)", dir)
			}
		}
		// files at the end are untouched
		if len(after) < nfiles || !slices.Equal(after[len(after)-nfiles:], orig[len(orig)-nfiles:]) {
			if !(len(ents) == 0 || !used[setName]) || nfiles == 0 {
				// appended "-name=value" goes to the very end: callers append files afterwards
			}
		}
		stats.Case(stats.Desc("flagvalue", fmt.Sprint(len(ents)), setName, fmt.Sprint(used[setName])), len(ents) >= 2, []string{"flagvalue"}, map[string]any{"tool_argv": orig, "set": setName, "to": newVal})
	})
}

func TestVerifC20Replay(t *testing.T) {
	m := loadGoFlagModel()
	rc.Fixed(t, func() {
		var c c20Case
		if k := os.Getenv("VERIF_FINDING"); k != "" {
			// frozen reproductions of listed findings
			switch k {
			case "C20/split-differs/bool-artifacts":
				c.Args = []string{"-artifacts", "./pkg"}
			case "C20/split-differs/double-dash-bool":
				c.Args = []string{"--race", "./pkg"}
			default:
				rc.Abort("unknown finding %s", k)
			}
		} else {
			data, err := os.ReadFile(filepath.Join(rc.ReplayCase(), "case.json"))
			if err != nil {
				rc.Abort("reading replay case: %v", err)
			}
			if err := json.Unmarshal(data, &c); err != nil {
				rc.Abort("parsing replay case: %v", err)
			}
		}
		key, msg, nt, desc := c20Check(m, c.Args)
		stats.Case(desc, nt, []string{"replay"}, nil)
		if key != "" {
			stats.Violate(key, msg, nil)
			t.Errorf("%s: %s", key, msg)
		}
	})
}

// FuzzVerifC20 decodes bytes into an argument vector over the documented flags.
func FuzzVerifC20(f *testing.F) {
	f.Add([]byte{1, 2, 3, 4, 5, 6, 7, 8})
	f.Add([]byte("\x00\x10\x20\x30\x40\x50\x60\x70\x80\x90"))
	f.Add([]byte("-race ./pkg -tags x"))
	f.Fuzz(func(t *testing.T, data []byte) {
		m := loadGoFlagModel()
		boolNames := sortedKeysC20(m.Bool)
		valueNames := sortedKeysC20(m.Value)
		vals := []string{"x", "-x", "out-tiny", "a=b", "", "./p", "-tiny", "main.go"}
		var vec []string
		i := 0
		next := func() int {
			if i >= len(data) {
				return 0
			}
			b := int(data[i])
			i++
			return b
		}
		for i < len(data) && len(vec) < 10 {
			op := next()
			d := "-"
			if op&0x40 != 0 {
				d = "--"
			}
			switch op % 5 {
			case 0:
				vec = append(vec, d+boolNames[next()%len(boolNames)][1:])
			case 1:
				vec = append(vec, d+valueNames[next()%len(valueNames)][1:], vals[next()%len(vals)])
			case 2:
				vec = append(vec, d+valueNames[next()%len(valueNames)][1:]+"="+vals[next()%len(vals)])
			case 3:
				vec = append(vec, d+boolNames[next()%len(boolNames)][1:]+"=true")
			case 4:
				vec = append(vec, []string{".", "./...", "main.go", "pkg-debug"}[next()%4])
				for i < len(data) && len(vec) < 10 {
					vec = append(vec, []string{"-race", "x", "-o", "--", "y.go"}[next()%5])
				}
			}
		}
		if os.Getenv("VERIF_EXCLUDE") != "" && c20Excluded(m, vec) != "" {
			return
		}
		if key, msg, _, _ := c20Check(m, vec); key != "" {
			t.Fatalf("%s: %s", key, msg)
		}
	})
}
