package main

// C15 — identical struct types get identical field names everywhere
// (in-process part: hashWithStruct over struct types built with go/types).

import (
	"encoding/json"
	"fmt"
	"go/token"
	"go/types"
	"os"
	"path/filepath"
	"testing"

	"pgregory.net/rapid"
	"verif/rc"
	"verif/stats"
)

// tdesc describes a type structurally; it can be built any number of times,
// each time with fresh go/types objects (as separate garble processes do).
type tdesc struct {
	K      string   `json:"k"` // basic | named | ptr | slice | array | map | chan | func | struct | iface | generic-inst | typeparam
	Name   string   `json:"name,omitempty"`
	Pkg    string   `json:"pkg,omitempty"`
	Elem   *tdesc   `json:"elem,omitempty"`
	Key    *tdesc   `json:"key,omitempty"`
	Fields []fdesc  `json:"fields,omitempty"`
	Args   []*tdesc `json:"args,omitempty"`
	N      int64    `json:"n,omitempty"`
}

type fdesc struct {
	Name     string `json:"name"`
	Embedded bool   `json:"embedded"`
	T        *tdesc `json:"t"`
}

// builder constructs go/types values from descriptions; variant decides the
// identity-preserving differences: tags, aliases around field types.
type builder struct {
	variant int
	pkgs    map[string]*types.Package
	named   map[string]*types.Named
	tparams map[string]*types.TypeParam
	count   int
}

func newBuilder(variant int) *builder {
	return &builder{variant: variant, pkgs: map[string]*types.Package{}, named: map[string]*types.Named{}, tparams: map[string]*types.TypeParam{}}
}

func (b *builder) pkg(path string) *types.Package {
	if p, ok := b.pkgs[path]; ok {
		return p
	}
	p := types.NewPackage(path, filepath.Base(path))
	b.pkgs[path] = p
	return p
}

func (b *builder) build(d *tdesc) types.Type {
	b.count++
	switch d.K {
	case "basic":
		return types.Universe.Lookup(d.Name).Type()
	case "named":
		key := d.Pkg + "." + d.Name
		if n, ok := b.named[key]; ok {
			return n
		}
		tn := types.NewTypeName(token.NoPos, b.pkg(d.Pkg), d.Name, nil)
		n := types.NewNamed(tn, types.Typ[types.Int], nil)
		b.named[key] = n
		if d.Elem != nil {
			n.SetUnderlying(b.build(d.Elem).Underlying())
		}
		return n
	case "ptr":
		return types.NewPointer(b.build(d.Elem))
	case "slice":
		return types.NewSlice(b.build(d.Elem))
	case "array":
		return types.NewArray(b.build(d.Elem), d.N)
	case "map":
		return types.NewMap(b.build(d.Key), b.build(d.Elem))
	case "chan":
		return types.NewChan(types.ChanDir(d.N%3), b.build(d.Elem))
	case "func":
		var params []*types.Var
		for i, a := range d.Args {
			params = append(params, types.NewParam(token.NoPos, nil, fmt.Sprintf("p%d", i), b.build(a)))
		}
		var results []*types.Var
		if d.Elem != nil {
			results = append(results, types.NewParam(token.NoPos, nil, "", b.build(d.Elem)))
		}
		return types.NewSignatureType(nil, nil, nil, types.NewTuple(params...), types.NewTuple(results...), false)
	case "iface":
		return types.NewInterfaceType(nil, nil).Complete()
	case "typeparam":
		if tp, ok := b.tparams[d.Name]; ok {
			return tp
		}
		tp := types.NewTypeParam(types.NewTypeName(token.NoPos, b.pkg("zq/gen"), d.Name, nil), types.Universe.Lookup("any").Type())
		b.tparams[d.Name] = tp
		return tp
	case "struct":
		return b.buildStruct(d)
	}
	panic("unknown kind " + d.K)
}

func (b *builder) buildStruct(d *tdesc) *types.Struct {
	var fields []*types.Var
	var tags []string
	for i, f := range d.Fields {
		ft := b.build(f.T)
		// identity-preserving variation: an alias in front of the field type
		if b.variant > 0 && (i+b.variant)%3 == 0 && !f.Embedded {
			ft = types.NewAlias(types.NewTypeName(token.NoPos, b.pkg("zq/alias"), fmt.Sprintf("Al%d", b.count), nil), ft)
		}
		fields = append(fields, types.NewField(token.NoPos, b.pkg("zq/decl"), f.Name, ft, f.Embedded))
		switch b.variant {
		case 0:
			tags = append(tags, "")
		case 1:
			tags = append(tags, fmt.Sprintf(`json:"f%d"`, i))
		default:
			tags = append(tags, fmt.Sprintf(`xml:"x%d" other:"%d"`, i, b.variant))
		}
	}
	return types.NewStruct(fields, tags)
}

func genTdesc(t *rapid.T, depth int, label string) *tdesc {
	kinds := []string{"basic", "basic", "named", "ptr", "slice", "map", "struct", "array", "func", "chan", "iface"}
	if depth <= 0 {
		kinds = []string{"basic", "named"}
	}
	k := rapid.SampledFrom(kinds).Draw(t, label+"k")
	d := &tdesc{K: k}
	switch k {
	case "basic":
		d.Name = rapid.SampledFrom([]string{"int", "string", "bool", "byte", "float64", "uint32", "rune", "error", "any"}).Draw(t, label+"b")
	case "named":
		d.Name = rapid.SampledFrom([]string{"T", "U", "Config", "node"}).Draw(t, label+"n")
		d.Pkg = rapid.SampledFrom([]string{"zq/a", "zq/b", "example.com/x/y"}).Draw(t, label+"p")
	case "ptr", "slice":
		d.Elem = genTdesc(t, depth-1, label+"e")
	case "array":
		d.Elem = genTdesc(t, depth-1, label+"e")
		d.N = int64(rapid.IntRange(0, 9).Draw(t, label+"len"))
	case "chan":
		d.Elem = genTdesc(t, depth-1, label+"e")
		d.N = int64(rapid.IntRange(0, 2).Draw(t, label+"dir"))
	case "map":
		d.Key = &tdesc{K: "basic", Name: rapid.SampledFrom([]string{"string", "int"}).Draw(t, label+"mk")}
		d.Elem = genTdesc(t, depth-1, label+"e")
	case "func":
		n := rapid.IntRange(0, 2).Draw(t, label+"np")
		for i := 0; i < n; i++ {
			d.Args = append(d.Args, genTdesc(t, depth-1, fmt.Sprintf("%sa%d", label, i)))
		}
		if rapid.Bool().Draw(t, label+"res") {
			d.Elem = genTdesc(t, depth-1, label+"r")
		}
	case "struct":
		d.Fields = genFields(t, depth-1, label)
	}
	return d
}

func genFields(t *rapid.T, depth int, label string) []fdesc {
	n := rapid.IntRange(1, 5).Draw(t, label+"nf")
	var out []fdesc
	used := map[string]bool{}
	for i := 0; i < n; i++ {
		name := rapid.SampledFrom([]string{"A", "B", "name", "Value", "x", "ID", "next", "Data", "count", "Err"}).Draw(t, fmt.Sprintf("%sfn%d", label, i))
		if used[name] {
			name = fmt.Sprintf("%s%d", name, i)
		}
		used[name] = true
		f := fdesc{Name: name, T: genTdesc(t, depth, fmt.Sprintf("%sft%d", label, i))}
		if f.T.K == "named" && rapid.IntRange(0, 3).Draw(t, fmt.Sprintf("%semb%d", label, i)) == 0 {
			f.Embedded = true
			f.Name = f.T.Name
			if used["emb:"+f.Name] {
				f.Embedded = false
				f.Name = name
			}
			used["emb:"+f.Name] = true
		}
		out = append(out, f)
	}
	return out
}

type c15Case struct {
	ReplayTest string `json:"replay_test"`
	ReplayKind string `json:"replay_kind"`
	ReplayPkg  string `json:"replay_pkg"`
	Struct     *tdesc `json:"struct"`
	Seed       []byte `json:"seed"`
}

func c15Run(c c15Case) (key, msg string, labels []string, nontrivial bool) {
	flagSeed = seedFlag{bytes: c.Seed}
	defer func() { flagSeed = seedFlag{} }()
	sharedCache = &sharedCacheType{BinaryContentID: []byte("0123456789abcde"), GOGARBLE: "*"}
	var structs []*types.Struct
	for variant := 0; variant < 3; variant++ {
		structs = append(structs, newBuilder(variant).buildStruct(c.Struct))
	}
	// sanity of the generator: built twice in ONE universe with different tags, the types are identical
	b := newBuilder(0)
	s0 := b.buildStruct(c.Struct)
	b.variant = 1
	s1 := b.buildStruct(c.Struct)
	if !types.IdenticalIgnoreTags(s0, s1) {
		rc.Abort("generator bug: variants of one description are not identical ignoring tags: %s vs %s", s0, s1)
	}
	if !types.Identical(s0, s1) {
		labels = append(labels, "tags-differ")
	}
	kinds := map[string]bool{}
	var walk func(d *tdesc)
	walk = func(d *tdesc) {
		if d == nil {
			return
		}
		kinds[d.K] = true
		walk(d.Elem)
		walk(d.Key)
		for _, a := range d.Args {
			walk(a)
		}
		for _, f := range d.Fields {
			if f.Embedded {
				kinds["embedded"] = true
			}
			walk(f.T)
		}
	}
	walk(c.Struct)
	for k := range kinds {
		labels = append(labels, "has:"+k)
	}
	nontrivial = len(kinds) >= 3
	for i := 0; i < structs[0].NumFields(); i++ {
		ref := hashWithStruct(structs[0], structs[0].Field(i))
		for v := 1; v < len(structs); v++ {
			got := hashWithStruct(structs[v], structs[v].Field(i))
			if got != ref {
				return "C15/field-name-differs", fmt.Sprintf("field %q of two struct types that are identical ignoring tags (built separately, with different tags and aliases) is obfuscated as %q and %q\n  type A: %s\n  type B: %s", structs[0].Field(i).Name(), ref, got, structs[0], structs[v]), labels, nontrivial
			}
		}
		// same universe, too
		if a, bb := hashWithStruct(s0, s0.Field(i)), hashWithStruct(s1, s1.Field(i)); a != bb {
			return "C15/field-name-differs", fmt.Sprintf("field %q of two identical (ignoring tags) struct types is obfuscated as %q and %q\n  type A: %s\n  type B: %s", s0.Field(i).Name(), a, bb, s0, s1), labels, nontrivial
		}
	}
	return "", "", labels, nontrivial
}

func c15Fail(c c15Case, key, msg string) string {
	c.ReplayTest, c.ReplayKind, c.ReplayPkg = "TestVerifC15Replay", "inproc", "."
	data, _ := json.MarshalIndent(c, "", " ")
	return stats.Violate(key, msg, map[string]string{"case.json": string(data)})
}

func TestVerifC15Struct(t *testing.T) {
	rc.Check(t, func(t *rapid.T) {
		var c c15Case
		c.Struct = &tdesc{K: "struct", Fields: genFields(t, 3, "s")}
		if rapid.Bool().Draw(t, "seeded") {
			c.Seed = rapid.SliceOfN(rapid.Byte(), 8, 8).Draw(t, "seed")
		}
		key, msg, labels, nt := c15Run(c)
		var sorted []string
		sorted = append(sorted, labels...)
		desc, _ := json.Marshal(c.Struct)
		stats.Case(stats.Hash(string(desc)), nt, sorted, map[string]any{"struct": newBuilder(1).buildStruct(c.Struct).String(), "seeded": len(c.Seed) > 0})
		if key != "" {
			dir := c15Fail(c, key, msg)
			t.Fatalf("%s: %s (replay %s)", key, msg, dir)
		}
	})
}

func TestVerifC15Replay(t *testing.T) {
	rc.Fixed(t, func() {
		data, err := os.ReadFile(filepath.Join(rc.ReplayCase(), "case.json"))
		if err != nil {
			rc.Abort("reading replay case: %v", err)
		}
		var c c15Case
		if err := json.Unmarshal(data, &c); err != nil {
			rc.Abort("parsing replay case: %v", err)
		}
		key, msg, labels, nt := c15Run(c)
		stats.Case("replay", nt, labels, nil)
		if key != "" {
			stats.Violate(key, msg, nil)
			t.Errorf("%s: %s", key, msg)
		}
	})
}
