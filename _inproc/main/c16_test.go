package main

// C16 — obfuscated names are well-formed, export-preserving and stable.
// Injected into garble's package main at test time (see DESIGN.md §3.2).

import (
	"crypto/sha256"
	"encoding/base64"
	"encoding/json"
	"fmt"
	mathrand "math/rand"
	"os"
	"path/filepath"
	"regexp"
	"strings"
	"testing"
	"unicode"
	"unicode/utf8"

	"pgregory.net/rapid"
	"verif/rc"
	"verif/stats"
)

// refHash is an independent implementation of the documented naming scheme:
// sha256(salt ‖ seed ‖ name); the first 9 bytes in URL-safe base64 give 12
// characters of which 6 + (byte 9 mod 7) are kept; a leading digit becomes a
// letter, dashes become 'a', and the first character is forced to the case
// class of the original identifier when the original is an identifier.
func refHash(salt, seed []byte, name string) (out string, raw string, fixups []string) {
	hh := sha256.New()
	hh.Write(salt)
	hh.Write(seed)
	hh.Write([]byte(name))
	sum := hh.Sum(nil)
	n := 6 + int(sum[9])%7
	enc := base64.RawURLEncoding.EncodeToString(sum[:9])
	raw = enc[:n]
	b := []byte(raw)
	if b[0] >= '0' && b[0] <= '9' {
		b[0] = b[0] - '0' + 'A'
		fixups = append(fixups, "digit")
	}
	for i := range b {
		if b[i] == '-' {
			b[i] = 'a'
			fixups = append(fixups, "dash")
		}
	}
	if refIsIdent(name) {
		r, _ := utf8.DecodeRuneInString(name)
		if unicode.IsUpper(r) {
			if b[0] == '_' {
				b[0] = 'Z'
				fixups = append(fixups, "underscore")
			} else if b[0] >= 'a' && b[0] <= 'z' {
				b[0] -= 'a' - 'A'
				fixups = append(fixups, "upcase")
			}
		} else if b[0] >= 'A' && b[0] <= 'Z' {
			b[0] += 'a' - 'A'
			fixups = append(fixups, "downcase")
		}
	}
	return string(b), raw, fixups
}

func refIsIdent(s string) bool {
	if s == "" {
		return false
	}
	for i, r := range s {
		if !(unicode.IsLetter(r) || r == '_' || (i > 0 && unicode.IsDigit(r))) {
			return false
		}
	}
	switch s {
	case "break", "case", "chan", "const", "continue", "default", "defer", "else", "fallthrough", "for", "func", "go", "goto", "if", "import", "interface", "map", "package", "range", "return", "select", "struct", "switch", "type", "var":
		return false
	}
	return true
}

var rxObfName = regexp.MustCompile(`^[A-Za-z_][A-Za-z0-9_]{5,11}$`)

type c16Case struct {
	ReplayTest string   `json:"replay_test"`
	ReplayKind string   `json:"replay_kind"`
	ReplayPkg  string   `json:"replay_pkg"`
	Salt       []byte   `json:"salt"`
	Seed       []byte   `json:"seed"`
	Name       string   `json:"name"`
	Noise      []string `json:"noise"` // other names hashed in between (purity)
}

func genName(t *rapid.T) (string, string) {
	class := rapid.SampledFrom([]string{"exported", "unexported", "underscore", "uni-upper", "uni-lower", "uni-caseless", "path", "position", "single", "keywordish"}).Draw(t, "class")
	id := func(first, rest string, lbl string) string {
		return rapid.StringMatching(first+rest+`{0,12}`).Draw(t, lbl)
	}
	switch class {
	case "exported":
		return id(`[A-Z]`, `[A-Za-z0-9_]`, "name"), class
	case "unexported":
		return id(`[a-z]`, `[A-Za-z0-9_]`, "name"), class
	case "underscore":
		return id(`_`, `[A-Za-z0-9_]`, "name"), class
	case "uni-upper":
		return rapid.SampledFrom([]string{"Ü", "Ω", "Ж", "É", "Ǆ"}).Draw(t, "u") + id(`[a-z]`, `[a-zé0-9_]`, "name"), class
	case "uni-lower":
		return rapid.SampledFrom([]string{"ü", "ω", "ж", "é", "ß"}).Draw(t, "u") + id(`[A-Za-z]`, `[A-Za-zñ0-9_]`, "name"), class
	case "uni-caseless":
		return rapid.SampledFrom([]string{"世", "界", "ʔ", "א", "あ"}).Draw(t, "u") + id(`[A-Za-z]`, `[A-Za-z0-9_]`, "name"), class
	case "path":
		return rapid.StringMatching(`[a-z]{1,8}(\.[a-z]{2,3})?(/[A-Za-z0-9._-]{1,8}){0,4}`).Draw(t, "name") + rapid.SampledFrom([]string{"", "/v2", ".test", " [a/b.test]"}).Draw(t, "sfx"), class
	case "position":
		return rapid.StringMatching(`[a-z_]{1,10}\.go:[1-9][0-9]{0,4}`).Draw(t, "name"), class
	case "single":
		return rapid.SampledFrom([]string{"a", "Z", "_", "x", "T", "é", "É", "0", "-", "."}).Draw(t, "name"), class
	default:
		return rapid.SampledFrom([]string{"func", "type", "Type", "main", "init", "String", "Error", "go", "Go", "range"}).Draw(t, "name"), class
	}
}

func c16Run(c c16Case) (key, msg string, labels []string, desc string, nontrivial bool) {
	// reset every global the hash functions touch
	flagSeed = seedFlag{bytes: c.Seed}
	defer func() { flagSeed = seedFlag{} }()
	hasher.Reset()
	for i := range b64NameBuffer {
		b64NameBuffer[i] = 0
	}

	got := hashWithCustomSalt(c.Salt, c.Name)
	want, raw, fixups := refHash(c.Salt, c.Seed, c.Name)
	labels = append(labels, "lead:"+raw[:1], fmt.Sprintf("len:%d", len(got)))
	for _, f := range fixups {
		labels = append(labels, "fixup:"+f)
	}
	if len(c.Seed) > 0 {
		labels = append(labels, "seeded")
	}
	nontrivial = len(fixups) > 0
	fx := map[string]bool{}
	for _, f := range fixups {
		fx[f] = true
	}
	desc = stats.Desc(raw[:1], stats.SortedSet(fx), fmt.Sprint(len(got)), fmt.Sprint(refIsIdent(c.Name)))

	if !rxObfName.MatchString(got) {
		return "C16/malformed", fmt.Sprintf("hash(%q,%q,%q) = %q is not [A-Za-z_][A-Za-z0-9_]{5,11}", c.Salt, c.Seed, c.Name, got), labels, desc, nontrivial
	}
	if !refIsIdent(got) {
		return "C16/not-identifier", fmt.Sprintf("%q is not a Go identifier", got), labels, desc, nontrivial
	}
	if refIsIdent(c.Name) {
		r, _ := utf8.DecodeRuneInString(c.Name)
		g, _ := utf8.DecodeRuneInString(got)
		if unicode.IsUpper(r) != unicode.IsUpper(g) {
			return "C16/export-changed", fmt.Sprintf("name %q (exported=%v) became %q (exported=%v)", c.Name, unicode.IsUpper(r), got, unicode.IsUpper(g)), labels, desc, nontrivial
		}
	}
	if got != want {
		return "C16/model-mismatch", fmt.Sprintf("hash(salt=%x, seed=%x, name=%q) = %q, reference model says %q", c.Salt, c.Seed, c.Name, got, want), labels, desc, nontrivial
	}
	// purity: other uses of the shared hasher and buffers must not matter
	for _, n := range c.Noise {
		if n == "" {
			continue
		}
		_ = hashWithCustomSalt([]byte(n), n)
		_ = addGarbleToHash([]byte(n))
		_ = randomName(mathrand.New(mathrand.NewSource(int64(len(n)))), n)
	}
	again := hashWithCustomSalt(c.Salt, c.Name)
	if again != got {
		return "C16/impure", fmt.Sprintf("hash(%x,%x,%q) gave %q, then %q after %d unrelated calls", c.Salt, c.Seed, c.Name, got, again, len(c.Noise)), labels, desc, nontrivial
	}
	return "", "", labels, desc, nontrivial
}

func c16Setup() {
	sharedCache = &sharedCacheType{BinaryContentID: []byte("0123456789abcde"), GOGARBLE: "*"}
}

func c16Fail(c c16Case, key, msg string) string {
	c.ReplayTest, c.ReplayKind, c.ReplayPkg = "TestVerifC16Replay", "inproc", "."
	data, _ := json.MarshalIndent(c, "", " ")
	return stats.Violate(key, msg, map[string]string{"case.json": string(data)})
}

func TestVerifC16Hash(t *testing.T) {
	c16Setup()
	rc.Check(t, func(t *rapid.T) {
		var c c16Case
		c.Salt = rapid.SliceOfN(rapid.Byte(), 1, 64).Draw(t, "salt")
		if rapid.Bool().Draw(t, "seeded") {
			c.Seed = rapid.SliceOfN(rapid.Byte(), 8, 32).Draw(t, "seed")
		}
		var class string
		c.Name, class = genName(t)
		c.Noise = rapid.SliceOfN(rapid.StringMatching(`[a-zA-Z/.]{1,10}`), 0, 4).Draw(t, "noise")
		key, msg, labels, desc, nt := c16Run(c)
		labels = append(labels, "class:"+class)
		stats.Case(desc+"|"+class, nt, labels, map[string]any{"salt": fmt.Sprintf("%x", c.Salt), "seed": fmt.Sprintf("%x", c.Seed), "name": c.Name, "hash": hashWithCustomSalt(c.Salt, c.Name)})
		if key != "" {
			dir := c16Fail(c, key, msg)
			t.Fatalf("%s: %s (replay %s)", key, msg, dir)
		}
	})
}

// TestVerifC16Distinct: distinct identifiers of one scope get distinct names.
func TestVerifC16Distinct(t *testing.T) {
	c16Setup()
	rc.Check(t, func(t *rapid.T) {
		salt := rapid.SliceOfN(rapid.Byte(), 1, 32).Draw(t, "salt")
		var seed []byte
		if rapid.Bool().Draw(t, "seeded") {
			seed = rapid.SliceOfN(rapid.Byte(), 8, 8).Draw(t, "seed")
		}
		n := rapid.IntRange(2, 3000).Draw(t, "n")
		prefix := rapid.StringMatching(`[A-Za-z_][A-Za-z0-9_]{0,6}`).Draw(t, "prefix")
		style := rapid.SampledFrom([]string{"numbered", "cased", "suffixed"}).Draw(t, "style")
		flagSeed = seedFlag{bytes: seed}
		defer func() { flagSeed = seedFlag{} }()
		seen := map[string]string{}
		names := 0
		for i := 0; i < n; i++ {
			var name string
			switch style {
			case "numbered":
				name = fmt.Sprintf("%s%d", prefix, i)
			case "cased":
				// pairs differing only in the case of the first letter
				name = fmt.Sprintf("%s%d", prefix, i/2)
				if i%2 == 1 {
					r, sz := utf8.DecodeRuneInString(name)
					sw := unicode.ToUpper(r)
					if sw == r {
						sw = unicode.ToLower(r)
					}
					if sw == r {
						continue
					}
					name = string(sw) + name[sz:]
				}
			default:
				name = fmt.Sprintf("%s_%x_", prefix, i*2654435761)
			}
			names++
			got := hashWithCustomSalt(salt, name)
			if prev, ok := seen[got]; ok && prev != name {
				_, raw1, _ := refHash(salt, seed, prev)
				_, raw2, _ := refHash(salt, seed, name)
				if raw1 != raw2 {
					msg := fmt.Sprintf("salt=%x seed=%x: %q and %q both obfuscate to %q although their hash prefixes differ (%q vs %q)", salt, seed, prev, name, got, raw1, raw2)
					c := c16Case{Salt: salt, Seed: seed, Name: name, Noise: []string{prev}}
					dir := c16Fail(c, "C16/clash", msg)
					t.Fatalf("%s (replay %s)", msg, dir)
				}
				stats.Label("genuine-prefix-collision")
			}
			seen[got] = name
		}
		bucket := "n<100"
		if names >= 1000 {
			bucket = "n>=1000"
		} else if names >= 100 {
			bucket = "n>=100"
		}
		stats.Case(stats.Desc("scope", style, bucket, fmt.Sprint(len(seed) > 0)), names >= 100, []string{"scope:" + style, "scope:" + bucket}, map[string]any{"scope_of": names, "style": style, "prefix": prefix})
	})
}

// TestVerifC16Replay re-executes a dumped case without rapid.
func TestVerifC16Replay(t *testing.T) {
	c16Setup()
	rc.Fixed(t, func() {
		data, err := os.ReadFile(filepath.Join(rc.ReplayCase(), "case.json"))
		if err != nil {
			rc.Abort("reading replay case: %v", err)
		}
		var c c16Case
		if err := json.Unmarshal(data, &c); err != nil {
			rc.Abort("parsing replay case: %v", err)
		}
		key, msg, labels, desc, nt := c16Run(c)
		stats.Case(desc, nt, labels, nil)
		if key == "" && len(c.Noise) == 1 {
			// clash replay: Noise[0] is the other name
			flagSeed = seedFlag{bytes: c.Seed}
			a, b := hashWithCustomSalt(c.Salt, c.Noise[0]), hashWithCustomSalt(c.Salt, c.Name)
			flagSeed = seedFlag{}
			_, r1, _ := refHash(c.Salt, c.Seed, c.Noise[0])
			_, r2, _ := refHash(c.Salt, c.Seed, c.Name)
			if a == b && c.Name != c.Noise[0] && r1 != r2 {
				key, msg = "C16/clash", fmt.Sprintf("%q and %q clash as %q", c.Noise[0], c.Name, a)
			}
		}
		if key != "" {
			stats.Violate(key, msg, nil)
			t.Errorf("%s: %s", key, msg)
		}
	})
}

// FuzzVerifC16 is the coverage-guided variant (thorough tier only).
func FuzzVerifC16(f *testing.F) {
	c16Setup()
	f.Add([]byte("salt"), []byte{}, "name")
	f.Add([]byte{0}, []byte("12345678"), "Exported")
	f.Add([]byte("x/y.z|"), []byte{}, "file.go:12")
	f.Add([]byte{0xff, 0xfe}, []byte{1, 2, 3, 4, 5, 6, 7, 8}, "Ünï")
	f.Fuzz(func(t *testing.T, salt, seed []byte, name string) {
		if len(salt) == 0 || name == "" || !utf8.ValidString(name) || strings.ContainsRune(name, 0) {
			return
		}
		if len(seed) > 0 && len(seed) < 8 {
			return
		}
		c := c16Case{Salt: salt, Seed: seed, Name: name}
		key, msg, _, _, _ := c16Run(c)
		if key != "" {
			t.Fatalf("%s: %s", key, msg)
		}
	})
}
