package main

// C08 (in-process part): the name-table replacer injected into package main
// must behave like strings.NewReplacer for any table of name pairs.

import (
	"encoding/json"
	"fmt"
	"os"
	"path/filepath"
	"sort"
	"strings"
	"testing"

	"pgregory.net/rapid"
	"verif/rc"
	"verif/stats"
)

type c08rCase struct {
	ReplayTest string   `json:"replay_test"`
	ReplayKind string   `json:"replay_kind"`
	ReplayPkg  string   `json:"replay_pkg"`
	Pairs      []string `json:"pairs"` // obfuscated, original, obfuscated, original ... sorted by obfuscated name
	Input      string   `json:"input"`
}

func c08rRun(c c08rCase) (key, msg string) {
	want := strings.NewReplacer(c.Pairs...).Replace(c.Input)
	got := _makeGenericReplacer(c.Pairs).Replace(c.Input)
	if got != want {
		return "C08/replacer-differs", fmt.Sprintf("the injected replacer and strings.NewReplacer disagree\n  pairs: %q\n  input: %q\n  want:  %q\n  got:   %q", c.Pairs, c.Input, want, got)
	}
	return "", ""
}

func TestVerifC08Replacer(t *testing.T) {
	rc.Check(t, func(t *rapid.T) {
		n := rapid.IntRange(0, 60).Draw(t, "npairs")
		obf := map[string]string{}
		var keys []string
		for i := 0; i < n; i++ {
			var k string
			switch rapid.IntRange(0, 4).Draw(t, "shape") {
			case 0: // fresh obfuscated-looking identifier
				k = rapid.StringMatching(`[A-Za-z_][A-Za-z0-9_]{5,11}`).Draw(t, "k")
			case 1: // shares a prefix with an existing key
				if len(keys) > 0 {
					base := rapid.SampledFrom(keys).Draw(t, "base")
					k = base[:rapid.IntRange(1, len(base)).Draw(t, "cut")] + rapid.StringMatching(`[A-Za-z0-9_]{1,6}`).Draw(t, "tail")
				}
			case 2: // an existing key is a prefix of this one
				if len(keys) > 0 {
					k = rapid.SampledFrom(keys).Draw(t, "base") + rapid.StringMatching(`[A-Za-z0-9_]{1,4}`).Draw(t, "tail")
				}
			case 3: // contains an existing key
				if len(keys) > 0 {
					k = rapid.StringMatching(`[A-Za-z_]{1,3}`).Draw(t, "head") + rapid.SampledFrom(keys).Draw(t, "base")
				}
			default:
				k = rapid.StringMatching(`[a-z]{6}`).Draw(t, "k")
			}
			if len(k) < 6 || len(k) > 24 {
				continue
			}
			if _, dup := obf[k]; dup {
				continue
			}
			obf[k] = rapid.StringMatching(`[A-Za-z_][A-Za-z0-9_]{0,14}`).Draw(t, "orig")
			keys = append(keys, k)
		}
		sort.Strings(keys)
		var c c08rCase
		for _, k := range keys {
			c.Pairs = append(c.Pairs, k, obf[k])
		}
		// input: type-expression-like text made of keys, punctuation and noise
		var sb strings.Builder
		parts := rapid.IntRange(0, 25).Draw(t, "nparts")
		hits, overlapping := 0, 0
		for i := 0; i < parts; i++ {
			switch rapid.IntRange(0, 3).Draw(t, "part") {
			case 0, 1:
				if len(keys) > 0 {
					k := rapid.SampledFrom(keys).Draw(t, "usekey")
					sb.WriteString(k)
					hits++
					for _, o := range keys {
						if o != k && (strings.HasPrefix(o, k) || strings.HasPrefix(k, o) || strings.Contains(k, o)) {
							overlapping++
							break
						}
					}
				}
			case 2:
				sb.WriteString(rapid.SampledFrom([]string{" ", "*", "[]", "{ ", " }", "; ", ".", "struct { ", "map[", "]", "func(", ")", ","}).Draw(t, "punct"))
			default:
				sb.WriteString(rapid.StringMatching(`[A-Za-z0-9_ ]{0,8}`).Draw(t, "noise"))
			}
		}
		c.Input = sb.String()
		key, msg := c08rRun(c)
		stats.Case(stats.Desc(fmt.Sprint(len(keys) > 10), fmt.Sprint(hits > 3), fmt.Sprint(overlapping > 0), fmt.Sprint(len(c.Input)/20)), hits >= 2 && overlapping >= 1,
			[]string{fmt.Sprintf("pairs>10:%v", len(keys) > 10), fmt.Sprintf("overlap:%v", overlapping > 0)}, map[string]any{"pairs": len(keys), "input": c.Input})
		if key != "" {
			c.ReplayTest, c.ReplayKind, c.ReplayPkg = "TestVerifC08ReplacerReplay", "inproc", "."
			data, _ := json.MarshalIndent(c, "", " ")
			dir := stats.Violate(key, msg, map[string]string{"case.json": string(data)})
			t.Fatalf("%s: %s (replay %s)", key, msg, dir)
		}
	})
}

func TestVerifC08ReplacerReplay(t *testing.T) {
	rc.Fixed(t, func() {
		data, err := os.ReadFile(filepath.Join(rc.ReplayCase(), "case.json"))
		if err != nil {
			rc.Abort("reading replay case: %v", err)
		}
		var c c08rCase
		if err := json.Unmarshal(data, &c); err != nil {
			rc.Abort("parsing replay case: %v", err)
		}
		key, msg := c08rRun(c)
		stats.Case("replay", true, nil, nil)
		if key != "" {
			stats.Violate(key, msg, nil)
			t.Errorf("%s: %s", key, msg)
		}
	})
}
