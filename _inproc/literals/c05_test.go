package literals

// C05 — obfuscated literals evaluate to their original values.
// Injected into garble's internal/literals package at test time.

import (
	"bytes"
	"encoding/json"
	"fmt"
	"go/ast"
	"go/parser"
	"go/printer"
	"go/token"
	"go/types"
	mathrand "math/rand"
	"os"
	"os/exec"
	"path/filepath"
	"strconv"
	"strings"
	"testing"

	"pgregory.net/rapid"
	"verif/rc"
	"verif/stats"
)

type c05Lit struct {
	Data []byte `json:"data"`
	Form string `json:"form"` // string | typed | concat | slice | array | ptrslice | ptrarray
	Pad  int    `json:"pad,omitempty"` // array forms: the array is Pad elements longer than the listed ones (they stay zero)
	Ctx  string `json:"ctx"`  // var | local | arg | ret | field | mapkey | mapval | closure | generic | elem | caselabel | const | arraylen
}

type c05Case struct {
	ReplayTest string   `json:"replay_test"`
	ReplayKind string   `json:"replay_kind"`
	ReplayPkg  string   `json:"replay_pkg"`
	Obf        int      `json:"obfuscator"` // index into Obfuscators, -1 = garble's own choice
	Seed       int64    `json:"seed"`
	Lits       []c05Lit `json:"lits"`
}

var c05ObfNames = []string{"simple", "swap", "split", "shuffle", "seed"}

func c05ObfName(i int) string {
	if i < 0 {
		return "free"
	}
	return c05ObfNames[i]
}

func fnv(b []byte) uint64 {
	h := uint64(14695981039346656037)
	for _, c := range b {
		h ^= uint64(c)
		h *= 1099511628211
	}
	return h
}

// goQuote renders bytes as an interpreted Go string literal that denotes
// exactly those bytes (invalid UTF-8 included).
func goQuote(b []byte) string {
	var sb strings.Builder
	sb.WriteByte('"')
	for _, c := range b {
		switch {
		case c == '"':
			sb.WriteString(`\"`)
		case c == '\\':
			sb.WriteString(`\\`)
		case c >= 0x20 && c < 0x7f:
			sb.WriteByte(c)
		default:
			fmt.Fprintf(&sb, `\x%02x`, c)
		}
	}
	sb.WriteByte('"')
	return sb.String()
}

func byteList(b []byte) string {
	var sb strings.Builder
	for i, c := range b {
		if i > 0 {
			sb.WriteString(", ")
		}
		switch i % 3 {
		case 0:
			sb.WriteString(strconv.Itoa(int(c)))
		case 1:
			fmt.Fprintf(&sb, "0x%02x", c)
		default:
			if c >= 0x20 && c < 0x7f && c != '\'' && c != '\\' {
				fmt.Fprintf(&sb, "'%c'", c)
			} else {
				sb.WriteString(strconv.Itoa(int(c)))
			}
		}
	}
	return sb.String()
}

// render produces the program: every literal has a carrier, main prints
// "<index> <len> <fnv>" of each carrier's run-time value.
func c05Render(lits []c05Lit) string {
	var decl, body bytes.Buffer
	decl.WriteString("package main\n\ntype tStr string\n\nfunc hashOf(b []byte) uint64 {\n\th := uint64(14695981039346656037)\n\tfor _, c := range b {\n\t\th ^= uint64(c)\n\t\th *= 1099511628211\n\t}\n\treturn h\n}\n\nfunc show(i int, b []byte) { println(i, len(b), hashOf(b)) }\n\nfunc ident[T any](x T) T { return x }\n\nfunc pass(s string) string { return s }\nfunc passB(b []byte) []byte { return b }\n\n")
	for i, l := range lits {
		// the literal expression and how to turn its value into []byte
		var expr, conv string
		n := len(l.Data)
		switch l.Form {
		case "string":
			expr, conv = goQuote(l.Data), "[]byte(%s)"
		case "typed":
			expr, conv = "tStr("+goQuote(l.Data)+")", "[]byte(%s)"
		case "concat":
			// constant-folded expression: the pieces concatenate to Data
			a, b := l.Data[:n/3], l.Data[n/3:]
			expr, conv = goQuote(a)+" + "+goQuote(b), "[]byte(%s)"
		case "slice":
			expr, conv = "[]byte{"+byteList(l.Data)+"}", "%s"
		case "array":
			expr, conv = fmt.Sprintf("[%d]byte{%s}", n+l.Pad, byteList(l.Data)), "func() []byte { a := %s; return a[:] }()"
		case "ptrslice":
			expr, conv = "&[]byte{"+byteList(l.Data)+"}", "*(%s)"
		case "ptrarray":
			expr, conv = fmt.Sprintf("&[%d]byte{%s}", n+l.Pad, byteList(l.Data)), "(%s)[:]"
		}
		isStr := l.Form == "string" || l.Form == "concat"
		v := fmt.Sprintf("v%d", i)
		use := func(e string) string { return fmt.Sprintf("\tshow(%d, %s)\n", i, fmt.Sprintf(conv, e)) }
		switch l.Ctx {
		case "var":
			fmt.Fprintf(&decl, "var %s = %s\n", v, expr)
			body.WriteString(use(v))
		case "local":
			fmt.Fprintf(&body, "\t%s := %s\n", v, expr)
			body.WriteString(use(v))
		case "ret":
			fmt.Fprintf(&decl, "func f%d() any { return %s }\n", i, expr)
			fmt.Fprintf(&decl, "var %s = %s\n", v, expr)
			fmt.Fprintf(&body, "\t_ = f%d()\n", i)
			body.WriteString(use(v))
		case "arg":
			if isStr {
				body.WriteString(use("pass(" + expr + ")"))
			} else if l.Form == "slice" {
				body.WriteString(use("passB(" + expr + ")"))
			} else {
				body.WriteString(use("ident(" + expr + ")"))
			}
		case "generic":
			body.WriteString(use("ident(" + expr + ")"))
		case "field":
			switch {
			case isStr:
				fmt.Fprintf(&body, "\t%s := struct {\n\t\tn int\n\t\ts string\n\t}{n: %d, s: %s}\n", v, i, expr)
				body.WriteString(use(v + ".s"))
			case l.Form == "slice":
				fmt.Fprintf(&body, "\t%s := struct{ b []byte }{%s}\n", v, expr)
				body.WriteString(use(v + ".b"))
			default:
				body.WriteString(use("(" + expr + ")"))
			}
		case "closure":
			fmt.Fprintf(&body, "\tc%d := func() int { show(%d, %s); return 0 }\n\tc%d()\n", i, i, fmt.Sprintf(conv, "("+expr+")"), i)
		case "elem":
			if isStr {
				fmt.Fprintf(&body, "\te%d := []string{\"a\", %s, \"b\"}\n", i, expr)
				body.WriteString(use(fmt.Sprintf("e%d[1]", i)))
			} else {
				fmt.Fprintf(&body, "\te%d := []any{1, %s}\n\t_ = e%d\n", i, expr, i)
				body.WriteString(use("(" + expr + ")"))
			}
		case "mapkey":
			if isStr {
				fmt.Fprintf(&body, "\tm%d := map[string]int{%s: %d}\n\tfor k := range m%d {\n\t\tshow(%d, []byte(k))\n\t}\n", i, expr, i, i, i)
			} else {
				body.WriteString(use("(" + expr + ")"))
			}
		case "mapval":
			if isStr {
				fmt.Fprintf(&body, "\tm%d := map[int]string{1: %s}\n", i, expr)
				body.WriteString(use(fmt.Sprintf("m%d[1]", i)))
			} else {
				body.WriteString(use("(" + expr + ")"))
			}
		case "caselabel":
			if isStr {
				fmt.Fprintf(&body, "\tswitch s%d := pass(%s); s%d {\n\tcase \"zz-never-zz\":\n\t\tprintln(\"bad\")\n\tcase %s:\n\t\tshow(%d, []byte(s%d))\n\tdefault:\n\t\tprintln(%d, \"nomatch\")\n\t}\n", i, expr, i, expr, i, i, i)
			} else {
				body.WriteString(use("(" + expr + ")"))
			}
		case "const":
			if isStr {
				fmt.Fprintf(&decl, "const k%d = %s\n", i, expr)
				body.WriteString(use(fmt.Sprintf("k%d", i)))
			} else {
				body.WriteString(use("(" + expr + ")"))
			}
		case "arraylen":
			if isStr {
				fmt.Fprintf(&decl, "var al%d [len(%s) + 1]byte\n", i, expr)
				fmt.Fprintf(&body, "\tprintln(%d, \"arraylen\", len(al%d))\n", i, i)
				body.WriteString(use("pass(" + expr + ")"))
			} else {
				body.WriteString(use("(" + expr + ")"))
			}
		}
	}
	decl.WriteString("\nfunc main() {\n")
	decl.Write(body.Bytes())
	decl.WriteString("}\n")
	return decl.String()
}

func c05Expected(lits []c05Lit) string {
	var sb strings.Builder
	for i, l := range lits {
		isStr := l.Form == "string" || l.Form == "concat"
		if l.Ctx == "arraylen" && isStr {
			fmt.Fprintf(&sb, "%d arraylen %d\n", i, len(l.Data)+1)
		}
		data := l.Data
		if l.Pad > 0 && (l.Form == "array" || l.Form == "ptrarray") {
			data = append(append([]byte{}, l.Data...), make([]byte, l.Pad)...)
		}
		fmt.Fprintf(&sb, "%d %d %d\n", i, len(data), fnv(data))
	}
	return sb.String()
}

var c05Dir string

func c05WorkDir() string {
	if c05Dir == "" {
		d, err := os.MkdirTemp(os.Getenv("VERIF_WORK"), "c05-")
		if err != nil {
			rc.Abort("mkdir: %v", err)
		}
		c05Dir = d
	}
	return c05Dir
}

var c05Counter int

// c05Run obfuscates, prints, compiles and runs one batch.
func c05Run(c c05Case) (key, msg string, rewritten int, src string) {
	src = c05Render(c.Lits)
	fset := token.NewFileSet()
	file, err := parser.ParseFile(fset, "main.go", src, parser.SkipObjectResolution)
	if err != nil {
		rc.Abort("generated source does not parse: %v\n%s", err, src)
	}
	info := types.Info{
		Types: make(map[ast.Expr]types.TypeAndValue),
		Defs:  make(map[*ast.Ident]types.Object),
		Uses:  make(map[*ast.Ident]types.Object),
	}
	var conf types.Config
	if _, err := conf.Check("main", fset, []*ast.File{file}, &info); err != nil {
		rc.Abort("generated source does not type-check: %v\n%s", err, src)
	}
	// force (or free) the obfuscator for this file's package name
	if c.Obf >= 0 {
		testPkgToObfuscatorMap = map[string]obfuscator{"main": Obfuscators[c.Obf]}
	} else {
		testPkgToObfuscatorMap = nil
	}
	defer func() { testPkgToObfuscatorMap = nil }()
	rnd := mathrand.New(mathrand.NewSource(c.Seed))
	var out *ast.File
	func() {
		defer func() {
			if r := recover(); r != nil {
				key, msg = "C05/obfuscate-panics", fmt.Sprintf("literals.Obfuscate panicked (obfuscator %s, seed %d): %v", c05ObfName(c.Obf), c.Seed, r)
			}
		}()
		out = Obfuscate(rnd, file, &info, nil, func(r *mathrand.Rand, base string) string {
			return fmt.Sprintf("%s%d", base, r.Uint64())
		})
	}()
	if key != "" {
		return key, msg, 0, src
	}
	var printed bytes.Buffer
	if err := printer.Fprint(&printed, fset, out); err != nil {
		return "C05/print-fails", fmt.Sprintf("printing the obfuscated file failed: %v", err), 0, src
	}
	obfSrc := printed.String()
	// how many literals were really rewritten: their text is gone
	for _, l := range c.Lits {
		if len(l.Data) >= MinSize && len(l.Data) <= MaxSize {
			var needle string
			switch l.Form {
			case "string":
				needle = goQuote(l.Data)
			case "slice", "array", "ptrslice", "ptrarray":
				needle = byteList(l.Data)
			default:
				continue
			}
			if !strings.Contains(obfSrc, needle) {
				rewritten++
			}
		}
	}
	c05Counter++
	dir := filepath.Join(c05WorkDir(), fmt.Sprintf("b%d", c05Counter))
	os.MkdirAll(dir, 0o755)
	defer os.RemoveAll(dir)
	srcPath := filepath.Join(dir, "main.go")
	if err := os.WriteFile(srcPath, printed.Bytes(), 0o644); err != nil {
		rc.Abort("%v", err)
	}
	bin := filepath.Join(dir, "prog")
	cmd := exec.Command("go", "build", "-trimpath", "-ldflags=-w -s", "-o", bin, srcPath)
	cmd.Dir = dir
	cmd.Env = append(os.Environ(), "GOFLAGS=", "CGO_ENABLED=0", "GO111MODULE=off")
	if outb, err := cmd.CombinedOutput(); err != nil {
		if strings.Contains(string(outb), "no space left") || strings.Contains(string(outb), "cannot allocate") {
			rc.Abort("go build: %s", outb)
		}
		return "C05/obfuscated-does-not-compile", fmt.Sprintf("the obfuscated file does not compile (obfuscator %s, seed %d): %v\n%s", c05ObfName(c.Obf), c.Seed, err, clipC05(string(outb), 3000)), rewritten, src
	}
	run := exec.Command(bin)
	var stderr bytes.Buffer
	run.Stderr = &stderr
	run.Stdout = &stderr
	runErr := run.Run()
	want := c05Expected(c.Lits)
	got := stderr.String()
	if runErr != nil {
		return "C05/obfuscated-crashes", fmt.Sprintf("the obfuscated program failed (obfuscator %s, seed %d): %v\n%s", c05ObfName(c.Obf), c.Seed, runErr, clipC05(got, 3000)), rewritten, src
	}
	if got != want {
		// find the first differing literal
		gl, wl := strings.Split(got, "\n"), strings.Split(want, "\n")
		for i := range wl {
			if i >= len(gl) || gl[i] != wl[i] {
				idx, _ := strconv.Atoi(strings.Fields(wl[i] + " 0")[0])
				l := c.Lits[min(idx, len(c.Lits)-1)]
				g := "<missing>"
				if i < len(gl) {
					g = gl[i]
				}
				return "C05/value-differs", fmt.Sprintf("literal %d (form %s, context %s, %d bytes %q) evaluates differently after obfuscation with %s, seed %d: want line %q, got %q", idx, l.Form, l.Ctx, len(l.Data), clipC05(string(l.Data), 80), c05ObfName(c.Obf), c.Seed, wl[i], g), rewritten, src
			}
		}
		return "C05/value-differs", "output differs", rewritten, src
	}
	return "", "", rewritten, src
}

func clipC05(s string, n int) string {
	if len(s) > n {
		return s[:n] + "…"
	}
	return s
}

var c05Lengths = []int{0, 1, 7, 8, 9, 15, 16, 17, 31, 32, 33, 63, 64, 65, 127, 128, 129, 255, 256, 257, 2047, 2048, 2049}

func c05GenData(t *rapid.T, maxLen int) []byte {
	var n int
	switch rapid.IntRange(0, 9).Draw(t, "lenkind") {
	case 0, 1, 2, 3:
		n = rapid.SampledFrom(c05Lengths).Draw(t, "len")
	case 4, 5, 6, 7:
		n = rapid.IntRange(0, 300).Draw(t, "len")
	case 8:
		n = rapid.IntRange(8, 40).Draw(t, "len")
	default:
		n = rapid.IntRange(2040, 2300).Draw(t, "len")
	}
	if n > maxLen {
		n = maxLen - rapid.IntRange(0, 3).Draw(t, "under")
	}
	b := make([]byte, n)
	switch rapid.IntRange(0, 5).Draw(t, "content") {
	case 0: // printable ASCII with quotes and backslashes
		alphabet := []byte(`abcXYZ019 "\'` + "`\t\n%{}")
		for i := range b {
			b[i] = alphabet[rapid.IntRange(0, len(alphabet)-1).Draw(t, "c")]
		}
	case 1: // all byte values
		for i := range b {
			b[i] = rapid.Byte().Draw(t, "c")
		}
	case 2: // runs
		v := rapid.Byte().Draw(t, "run")
		for i := range b {
			b[i] = v
		}
	case 3: // zero bytes and 0xff
		for i := range b {
			b[i] = []byte{0, 0xff, 0x80, 0x7f}[rapid.IntRange(0, 3).Draw(t, "c")]
		}
	case 4: // counting pattern seeded by one draw (cheap for long literals)
		s := rapid.Byte().Draw(t, "start")
		m := rapid.IntRange(1, 13).Draw(t, "mul")
		for i := range b {
			b[i] = s + byte(i*m)
		}
	default: // multi-byte UTF-8 and invalid sequences
		pieces := []string{"é", "世", "😀", "\xc3", "\xff\xfe", "a", "\x00"}
		var bb []byte
		for len(bb) < n {
			bb = append(bb, pieces[rapid.IntRange(0, len(pieces)-1).Draw(t, "p")]...)
		}
		copy(b, bb)
	}
	return b
}

func c05Fail(c c05Case, key, msg, src string) string {
	c.ReplayTest, c.ReplayKind, c.ReplayPkg = "TestVerifC05Replay", "inproc", "./internal/literals"
	data, _ := json.Marshal(c)
	return stats.Violate(key, msg, map[string]string{"case.json": string(data), "main.go": src})
}

func lenBucket(n int) string {
	switch {
	case n < MinSize:
		return "<8"
	case n <= 64:
		return "8-64"
	case n <= 256:
		return "65-256"
	case n <= MaxSize:
		return "257-2048"
	}
	return ">2048"
}

var (
	c05Forms = []string{"string", "string", "concat", "typed", "slice", "array", "ptrslice", "ptrarray"}
	c05Ctxs  = []string{"var", "local", "arg", "ret", "field", "mapkey", "mapval", "closure", "generic", "elem", "caselabel", "const", "arraylen"}
)

func TestVerifC05Batch(t *testing.T) {
	rc.Check(t, func(t *rapid.T) {
		var c c05Case
		// spread evenly over the five obfuscators and garble's own choice
		c.Obf = int(rapid.Uint64().Draw(t, "obfpick")%uint64(len(Obfuscators)+1)) - 1
		c.Seed = rapid.Int64().Draw(t, "seed")
		maxLen := 2400
		if c.Obf >= 2 {
			// split, shuffle and seed are only ever chosen up to MaxSizeExpensive
			maxLen = MaxSizeExpensive
		}
		n := rapid.IntRange(8, rc.Pick(40, 60)).Draw(t, "nlits")
		big := 0
		for i := 0; i < n; i++ {
			var l c05Lit
			l.Form = rapid.SampledFrom(c05Forms).Draw(t, "form")
			l.Ctx = rapid.SampledFrom(c05Ctxs).Draw(t, "ctx")
			ml := maxLen
			if big >= 3 && ml > 300 {
				ml = 300 // keep compile times bounded: a few long literals per batch
			}
			l.Data = c05GenData(t, ml)
			if len(l.Data) > 300 {
				big++
			}
			if (l.Form == "array" || l.Form == "ptrarray") && len(l.Data) == 0 {
				l.Data = []byte{1}
			}
			if l.Form == "array" || l.Form == "ptrarray" {
				// one array literal in three lists fewer elements than the array has
				l.Pad = rapid.SampledFrom([]int{0, 0, 0, 0, 1, 7, 300}).Draw(t, "pad")
			}
			c.Lits = append(c.Lits, l)
		}
		key, msg, rewritten, src := c05Run(c)
		for _, l := range c.Lits {
			inWindow := len(l.Data) >= MinSize && len(l.Data) <= MaxSize
			desc := stats.Desc(c05ObfName(c.Obf), l.Form, l.Ctx, lenBucket(len(l.Data)))
			stats.Case(desc, inWindow && l.Form != "typed" && l.Ctx != "const", []string{"obf:" + c05ObfName(c.Obf), "form:" + l.Form, "ctx:" + l.Ctx, "len:" + lenBucket(len(l.Data))}, nil)
		}
		stats.LabelN("literals-rewritten", rewritten)
		stats.Label("batches")
		if len(c.Lits) > 0 {
			l := c.Lits[0]
			stats.Sample(map[string]any{"obfuscator": c05ObfName(c.Obf), "seed": c.Seed, "literals": len(c.Lits), "first": map[string]any{"form": l.Form, "ctx": l.Ctx, "len": len(l.Data), "data": clipC05(fmt.Sprintf("%q", l.Data), 60)}})
		}
		if key != "" {
			dir := c05Fail(c, key, msg, src)
			t.Fatalf("%s: %s (replay %s)", key, msg, dir)
		}
	})
}

func TestVerifC05Replay(t *testing.T) {
	rc.Fixed(t, func() {
		data, err := os.ReadFile(filepath.Join(rc.ReplayCase(), "case.json"))
		if err != nil {
			rc.Abort("reading replay case: %v", err)
		}
		var c c05Case
		if err := json.Unmarshal(data, &c); err != nil {
			rc.Abort("parsing replay case: %v", err)
		}
		key, msg, _, _ := c05Run(c)
		stats.Case("replay", true, []string{"replay"}, nil)
		if key != "" {
			stats.Violate(key, msg, nil)
			t.Errorf("%s: %s", key, msg)
		}
	})
}
