#!/usr/bin/env python3
"""Regenerates MANIFEST.json from the table below (kept in one place so the
manifest stays valid while checks are added)."""
import json, subprocess

CHECKS = {
 "C16": dict(
   category="exploration",
   text="Property-based testing of garble's name hashing inside package main: 150k (quick) / 6M (thorough) generated (salt, seed, name) triples are checked for identifier validity, export preservation, agreement with an independently written reference implementation and purity under interleaved unrelated calls; generated scopes of up to 3000 identifiers are checked for clashes; a native fuzz target runs in the thorough tier. Exploration is the right level: the function is pure and cheap, so a dense random search plus a reference model leaves little room, but it is not a proof.",
   design_ref="DESIGN.md §4 C16",
   note="Trusts go1.26.2's crypto/sha256 and encoding/base64; the reference model is written from hash.go's documentation. Test files are injected with go test -overlay/-modfile, /repo is not modified.",
   technique="property-based testing (rapid) against a reference model + validity predicates; native go fuzzing in thorough"),
}

NOT_YET = {}

def main():
    props = [json.loads(l) for l in open('/verif/properties.jsonl')]
    checks = []
    na = []
    for p in props:
        pid = p['id']
        if pid in CHECKS:
            c = CHECKS[pid]
            checks.append({
              "property_id": pid,
              "quick_cmd": f"./check {pid} quick",
              "thorough_cmd": f"./check {pid} thorough",
              "evidence_file": f"/verif/evidence/{pid}.json",
              "replay_cmd_template": f"./check replay {pid} {{path}}",
              "engine": "verif-driver",
              "level_claimed": {"category": c['category'], "text": c['text'], "design_ref": c['design_ref']},
              "level_note": c['note'],
              "technique": c['technique'],
            })
        else:
            na.append({"property_id": pid, "reason": NOT_YET.get(pid, "check under construction in this session (property-based check designed in DESIGN.md §4, not yet registered)")})
    m = {
      "version": 1,
      "setup_cmd": "./check setup",
      "hooks": {
        "guard": "verif",
        "enable": "no hook is compiled into garble: in-package tests are injected at test time with `go test -modfile -overlay` (see DESIGN.md §3.2); end-to-end checks build the unmodified working tree of /repo",
        "baseline_off_cmd": "cd /repo && PATH=/root/go/pkg/mod/golang.org/toolchain@v0.0.1-go1.26.2.linux-amd64/bin:$PATH GOTOOLCHAIN=local GOFLAGS=-mod=mod GOPROXY=off go test -vet=off -count=1 -timeout 25m ./...",
        "source_commits": [],
        "add_only": True,
      },
      "engines": [
        {"name": "verif-driver", "path": "/verif/cmd/verif", "serves_properties": sorted(CHECKS), "kind_free_text": "Go driver running pgregory.net/rapid property tests (end-to-end against a garble binary rebuilt from /repo, and in-package tests injected by overlay) plus native go fuzz targets; merges per-process statistics into evidence files"},
      ],
      "checks": checks,
      "not_applicable": na,
      "notes": "All commands run offline with go1.26.2 from the module cache. Exit 0 = held, 1 = VIOLATION line printed, 2 = machinery failure (inconclusive). See DESIGN.md.",
    }
    json.dump(m, open('/verif/MANIFEST.json', 'w'), indent=1)
    print("checks:", len(checks), "not_applicable:", len(na))

main()
