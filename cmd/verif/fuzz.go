package main

import (
	"encoding/json"
	"fmt"
	"os"
	"path/filepath"
	"regexp"
	"strconv"
	"strings"
	"time"

	"verif/h"
	"verif/stats"
)

// scratchRepo makes a private copy of /repo's working tree (without .git)
// with the injected test files of pkg written into it. Native fuzzing writes
// crashers into the package's testdata directory, which must not be /repo.
func scratchRepo(rc *runCtx, pkg string) string {
	dir := filepath.Join(rc.work, "fuzzrepo-"+h.StrSHA(pkg))
	if _, err := os.Stat(dir); err == nil {
		return dir
	}
	r := h.Run(h.Cmd{Env: h.CleanEnv(), Args: []string{"rsync", "-a", "--exclude", ".git", h.RepoDir + "/", dir + "/"}})
	if !r.OK() {
		panic(h.Infraf("copying /repo: %s", r.Brief()))
	}
	modfile, _ := prepareInproc(rc.work, pkg)
	data, err := os.ReadFile(modfile)
	h.Must(err)
	h.Must(os.WriteFile(filepath.Join(dir, "go.mod"), data, 0o644))
	sum, _ := os.ReadFile(filepath.Join(filepath.Dir(modfile), "alt.sum"))
	h.Must(os.WriteFile(filepath.Join(dir, "go.sum"), sum, 0o644))
	srcDir := filepath.Join(h.VerifDir, "_inproc", inprocDir(pkg))
	ents, err := os.ReadDir(srcDir)
	h.Must(err)
	for _, e := range ents {
		if strings.HasSuffix(e.Name(), ".go") {
			b, err := os.ReadFile(filepath.Join(srcDir, e.Name()))
			h.Must(err)
			h.Must(os.WriteFile(filepath.Join(dir, strings.TrimPrefix(pkg, "./"), "zz_verif_"+e.Name()), b, 0o644))
		}
	}
	return dir
}

var rxExecs = regexp.MustCompile(`execs: (\d+)`)

// runFuzz runs a native fuzz target for its time budget in a scratch copy.
func runFuzz(rc *runCtx, u Unit, replayInput string) unitResult {
	repo := scratchRepo(rc, u.Pkg)
	pkgDir := filepath.Join(repo, strings.TrimPrefix(u.Pkg, "./"))
	corpus := filepath.Join(pkgDir, "testdata", "fuzz", u.Name)
	env := h.CleanEnv("HOME="+os.Getenv("HOME"), "GOFLAGS=-mod=mod", "CGO_ENABLED=0", "VERIF_TIER="+rc.tier)
	if len(rc.exclude) > 0 && replayInput == "" {
		env = append(env, "VERIF_EXCLUDE="+strings.Join(rc.exclude, ","))
	}
	var args []string
	if replayInput != "" {
		os.MkdirAll(corpus, 0o755)
		data, err := os.ReadFile(replayInput)
		h.Must(err)
		h.Must(os.WriteFile(filepath.Join(corpus, "replayinput"), data, 0o644))
		args = []string{"go", "test", "-vet=off", "-count=1", u.Pkg, "-run", "^" + u.Name + "$/replayinput"}
	} else {
		ft := u.FuzzTime
		if ft == "" {
			ft = "60s"
		}
		args = []string{"go", "test", "-vet=off", u.Pkg, "-run", "^$", "-fuzz", "^" + u.Name + "$", "-fuzztime", ft,
			"-test.fuzzcachedir", filepath.Join(rc.work, "fuzzcache-"+u.Name), "-timeout", "0"}
	}
	start := time.Now()
	res := h.Run(h.Cmd{Dir: repo, Env: env, Args: args, Timeout: 6 * time.Hour})
	out := res.Stdout + res.Stderr
	st := &stats.File{Test: u.Name, Labels: map[string]int{}, Excluded: map[string]int{}}
	if ms := rxExecs.FindAllStringSubmatch(out, -1); len(ms) > 0 {
		n, _ := strconv.Atoi(ms[len(ms)-1][1])
		st.Evaluations = n
		st.Labels["fuzz-execs:"+u.Name] = n
	}
	st.Notes = append(st.Notes, fmt.Sprintf("native fuzzing of %s for %.0fs: %d executions (coverage-guided; cannot be pinned to a seed)", u.Name, time.Since(start).Seconds(), st.Evaluations))
	ur := unitResult{st: st, exit: res.Exit, tail: h.Clip(out, 3000)}
	if res.Exit == 0 {
		st.Passed = true
		return ur
	}
	// a crasher?
	ents, _ := os.ReadDir(corpus)
	var crasher string
	for _, e := range ents {
		if e.Name() != "replayinput" {
			crasher = filepath.Join(corpus, e.Name())
		}
	}
	if replayInput != "" && strings.Contains(out, "--- FAIL") {
		crasher = replayInput
	}
	if crasher == "" || !strings.Contains(out, "FAIL") {
		ur.died = true
		return ur
	}
	dir := filepath.Join(rc.replays, fmt.Sprintf("fuzz-%s-%s", u.Name, time.Now().Format("150405")))
	os.MkdirAll(dir, 0o755)
	data, _ := os.ReadFile(crasher)
	os.WriteFile(filepath.Join(dir, "input"), data, 0o644)
	meta, _ := json.Marshal(map[string]string{"replay_test": u.Name, "replay_kind": "fuzz", "replay_pkg": u.Pkg})
	os.WriteFile(filepath.Join(dir, "case.json"), meta, 0o644)
	os.WriteFile(filepath.Join(dir, "output.txt"), []byte(out), 0o644)
	msg := out
	if i := strings.Index(out, "--- FAIL"); i >= 0 {
		msg = out[i:]
	}
	st.Violations = append(st.Violations, stats.Violation{Key: "fuzz/" + u.Name, Replay: dir, Msg: h.Clip(msg, 2000)})
	return ur
}
