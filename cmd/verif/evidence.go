package main

import (
	"encoding/json"
	"os"
	"path/filepath"
	"sort"
	"time"

	"verif/h"
	"verif/stats"
)

type coverage struct {
	Evaluations        int            `json:"evaluations"`
	DistinctNontrivial int            `json:"distinct_nontrivial"`
	Rule               string         `json:"rule"`
	Samples            []any          `json:"samples"`
	Exhaustive         bool           `json:"exhaustive,omitempty"`
	Labels             map[string]int `json:"labels"`
	Excluded           map[string]int `json:"excluded_known_shapes,omitempty"`
	Units              map[string]int `json:"evaluations_per_unit"`
	KnownFindings      []string       `json:"known_findings,omitempty"`
	Notes              []string       `json:"notes,omitempty"`
	Infra              []string       `json:"infrastructure_problems,omitempty"`
}

type evidence struct {
	PropertyID  string   `json:"property_id"`
	Tier        string   `json:"tier"`
	Seed        int64    `json:"seed"`
	Level       string   `json:"level"`
	Coverage    coverage `json:"coverage"`
	Assumptions []string `json:"assumptions"`
	WallS       float64  `json:"wall_s"`
	Violations  int      `json:"violations"`
	GarbleTree  string   `json:"garble_tree,omitempty"`
}

func buildEvidence(id, tier string, seed int64, p Property, files []*stats.File, violations int, wall time.Duration, known, infra []string) evidence {
	cov := coverage{Rule: p.Rule, Labels: map[string]int{}, Excluded: map[string]int{}, Units: map[string]int{}, KnownFindings: known, Infra: infra}
	distinct := map[string]bool{}
	for _, f := range files {
		if f == nil {
			continue
		}
		cov.Evaluations += f.Evaluations
		if f.Test != "driver" {
			cov.Units[f.Test] += f.Evaluations
		}
		for k, v := range f.Labels {
			cov.Labels[k] += v
		}
		for k, v := range f.Excluded {
			cov.Excluded[k] += v
		}
		for _, d := range f.Distinct {
			distinct[f.Test+"/"+d] = true
		}
		for _, s := range f.Samples {
			if len(cov.Samples) < 8 {
				cov.Samples = append(cov.Samples, s)
			}
		}
		cov.Notes = append(cov.Notes, f.Notes...)
	}
	sort.Strings(cov.Notes)
	cov.DistinctNontrivial = len(distinct)
	if cov.Samples == nil {
		cov.Samples = []any{}
	}
	cov.Exhaustive = false
	return evidence{
		PropertyID: id, Tier: tier, Seed: seed, Level: p.Level, Coverage: cov,
		Assumptions: p.Assumptions, WallS: wall.Seconds(), Violations: violations,
		GarbleTree: repoState(),
	}
}

func repoState() string {
	r := h.Run(h.Cmd{Dir: h.RepoDir, Env: h.CleanEnv("HOME=" + os.Getenv("HOME")), Args: []string{"git", "rev-parse", "--short", "HEAD"}})
	s := "HEAD " + trim(r.Stdout)
	d := h.Run(h.Cmd{Dir: h.RepoDir, Env: h.CleanEnv("HOME=" + os.Getenv("HOME")), Args: []string{"git", "status", "--porcelain"}})
	if trim(d.Stdout) != "" {
		s += " (working tree modified)"
	}
	return s
}

func trim(s string) string {
	for len(s) > 0 && (s[len(s)-1] == '\n' || s[len(s)-1] == ' ') {
		s = s[:len(s)-1]
	}
	return s
}

func writeEvidence(id string, ev evidence) {
	dir := filepath.Join(h.VerifDir, "evidence")
	if d := os.Getenv("VERIF_EVIDENCE_DIR"); d != "" {
		dir = d // development runs against seeded copies must not overwrite the evidence of record
	}
	os.MkdirAll(dir, 0o755)
	data, _ := json.MarshalIndent(ev, "", " ")
	tmp := filepath.Join(dir, id+".json.tmp")
	if os.WriteFile(tmp, append(data, '\n'), 0o644) == nil {
		os.Rename(tmp, filepath.Join(dir, id+".json"))
	}
}
