package main

import "sort"

// Unit is one test function that explores (part of) a property.
type Unit struct {
	Name         string
	Kind         string // "e2e": bin/checks.test; "inproc": go test inside /repo with an overlay
	Pkg          string // inproc: package pattern relative to /repo
	Checks       [2]int // rapid case count per worker: quick, thorough
	Workers      [2]int // parallel worker processes: quick, thorough
	Steps        [2]int // rapid.steps for state machines (0 = default)
	Shrink       string // rapid.shrinktime override
	Fixed        bool   // not a rapid test (enumeration or frozen cases)
	Fuzz         bool   // native go fuzzing (thorough only)
	FuzzTime     string
	ThoroughOnly bool
	Pending      bool // written but without a completed run on the unchanged tree: only with VERIF_PENDING=1 (DESIGN.md 10.10)
	Env          []string
}

// Property describes how one property is decided.
type Property struct {
	Units       []Unit
	Level       string
	Rule        string
	Assumptions []string
	ReplayUnit  string
}

func propertyIDs() []string {
	var ids []string
	for id := range properties {
		ids = append(ids, id)
	}
	sort.Strings(ids)
	return ids
}

var commonAssumptions = []string{
	"go1.26.2 linux/amd64 toolchain from the module cache; CGO_ENABLED=0; generated programs import the standard library only",
	"the regular go toolchain is the reference: a program it builds and runs defines the expected behaviour",
	"absence of a violation is evidence over the explored cases only",
}

var properties = map[string]Property{}

func init() {
	properties["C16"] = Property{
		Level: "exploration",
		Rule:  "cases = (salt 1-64 bytes, optional seed 8-32 bytes, name drawn from 10 classes: ASCII exported/unexported, underscore-leading, Unicode upper/lower/caseless, import paths, file.go:N positions, single characters, keyword-like) checked for validity, export preservation, agreement with an independent reference implementation and purity under interleaved unrelated hash calls; plus scopes of 2-3000 distinct identifiers under one salt checked for clashes. Non-trivial = at least one fix-up fired (leading digit, dash, underscore, case change) or, for scopes, >=100 names; distinct = (leading base64 symbol, fix-up set, length, identifier?, name class) resp. (scope style, size bucket, seeded).",
		Assumptions: []string{
			"the reference model was written from the documented algorithm (hash.go comments), not derived from the implementation's output",
			"a clash is only a violation when the two names' raw hash prefixes differ (a genuine sha256 prefix collision is allowed by the statement)",
		},
		ReplayUnit: "TestVerifC16Replay",
		Units: []Unit{
			{Name: "TestVerifC16Hash", Kind: "inproc", Pkg: ".", Checks: [2]int{150000, 1500000}, Workers: [2]int{1, 4}},
			{Name: "TestVerifC16Distinct", Kind: "inproc", Pkg: ".", Checks: [2]int{150, 1000}, Workers: [2]int{1, 4}},
			{Name: "FuzzVerifC16", Kind: "fuzz", Pkg: ".", Fuzz: true, FuzzTime: "60s", ThoroughOnly: true},
		},
	}
}

func init() {
	properties["C01"] = Property{
		Level:       "exploration",
		Rule:        "cases = (generated multi-package program from the feature library, garble configuration from {default, -tiny, -literals, -seed, combinations, GOGARBLE=module-only}, command build|run|test, 1-3 runtime argument vectors); oracle = differential against the regular toolchain on stdout, exit status, stderr and test verdicts. Non-trivial = at least two packages and at least one feature used across a package boundary; distinct = (feature set, configuration class, command).",
		Assumptions: commonAssumptions,
		ReplayUnit:  "TestC01Replay",
		Units: []Unit{
			{Name: "TestC01", Kind: "e2e", Checks: [2]int{10, 60}, Workers: [2]int{3, 8}},
		},
	}
}

func init() {
	properties["C20"] = Property{
		Level: "exploration",
		Rule:  "cases = argument vectors (0-6 flags drawn from every flag documented by `go help build|testflag|test|run`, in -f, -f v, -f=v and --f forms, with values that look like flags, paths or garble flags, followed by 0-3 package/file arguments) compared with a reference splitter built at run time from the go command's help text; plus argv observed at a stub go command for whole garble invocations. Non-trivial = a boolean flag directly followed by a non-flag argument and a value-taking flag in separated form; distinct = (flag form kinds, flag count, argument count).",
		Assumptions: []string{
			"the go command's help text is the specification of which flags take a value (-o is added from the prose of `go help build`)",
			"flags after the first package argument are outside the generated domain except as opaque package arguments",
			"-args is excluded as in the statement",
		},
		ReplayUnit: "TestVerifC20Replay",
		Units: []Unit{
			{Name: "TestVerifC20Split", Kind: "inproc", Pkg: ".", Checks: [2]int{100000, 1500000}, Workers: [2]int{1, 4}},
			{Name: "TestVerifC20FlagValue", Kind: "inproc", Pkg: ".", Checks: [2]int{20000, 300000}, Workers: [2]int{1, 2}},
			{Name: "TestC20Stub", Kind: "e2e", Checks: [2]int{300, 2500}, Workers: [2]int{1, 2}, Shrink: "30s"},
			{Name: "FuzzVerifC20", Kind: "fuzz", Pkg: ".", Fuzz: true, FuzzTime: "60s", ThoroughOnly: true},
		},
	}
}

func init() {
	properties["C05"] = Property{
		Level: "exploration",
		Rule:  "cases = literals (bytes of length 0..2300 biased to the boundaries 7/8/9, 255/256/257, 2047/2048/2049; contents: all byte values, runs, quotes/backslashes, invalid UTF-8) x form {string, typed string, folded concatenation, []byte, [N]byte, &[]byte, &[N]byte} x syntactic context (13 kinds incl. const declarations, array lengths and case labels) x obfuscator {simple, swap, split, shuffle, seed, garble's own choice} x math/rand seed; each batch is obfuscated with literals.Obfuscate, printed, compiled with the real compiler and run, and every carrier's run-time bytes are compared with the bytes written into the source. Array forms list fewer elements than the array has in three of seven draws (1, 7 or 300 trailing zero elements). End-to-end: generated programs built with garble -literals and compared with the regular build. evaluations = literal x seed pairs. Non-trivial = length inside the obfuscation window [8, 2048] and not a typed/const form that stays a constant; distinct = (obfuscator, form, context, length bucket).",
		Assumptions: []string{
			"expected values come from the generator, never from garble",
			"split, shuffle and seed are forced only on literals up to 256 bytes, the largest size at which garble itself selects them",
			"the go1.26.2 compiler is trusted to evaluate the printed obfuscated code",
		},
		ReplayUnit: "TestVerifC05Replay",
		Units: []Unit{
			{Name: "TestVerifC05Batch", Kind: "inproc", Pkg: "./internal/literals", Checks: [2]int{15, 120}, Workers: [2]int{4, 12}, Shrink: "60s"},
		},
	}
}

func init() {
	properties["C02"] = Property{
		Level: "exploration",
		Rule:  "cases = generated programs whose every identifier, file, directory, package and module name carries a unique marker, built with garble under drawn configurations, from drawn source directories (spaces, dots, nesting) and TMPDIR locations (also inside the source tree); each marker is one evaluation: it is scored only if the regular (non-trimpath) binary contains it (positive control) and the statement lists no exception for it; then it must be absent from the garbled binary. Paths (module, import paths, source dir, TMPDIR, caches) and build metadata (go version -m, build ID, ELF symbol/debug sections, Go version string) are checked per binary. Non-trivial = scored marker; distinct = (identifier kind, exported?, feature, configuration class).",
		Assumptions: append([]string{
			"programs are reflection-free by construction (values are printed through a type switch, not fmt); the one feature that hands its types to fmt is treated as a documented exception",
			"markers are unique 8+ character strings, so a chance occurrence in unrelated bytes is negligible",
		}, commonAssumptions...),
		ReplayUnit: "TestC02Replay",
		Units: []Unit{
			{Name: "TestC02", Kind: "e2e", Checks: [2]int{8, 50}, Workers: [2]int{3, 8}},
		},
	}
}

func init() {
	properties["C03"] = Property{
		Level: "exploration",
		Rule:  "cases = (generated program incl. //garble:controlflow functions with drawn directive parameters, configuration from {default, -literals, -tiny, -seed, combinations, controlflow on}, 2-3 build circumstances each drawn from cache state {module-cold private copy, partially filled, fully warm} x -p {1,2,4,16} x source directory (different lengths) x TMPDIR x idle delay); oracle = equal sha256 of all outputs; on a mismatch both are rebuilt with -debugdir and the first differing garbled file is reported. Non-trivial = at least two of the builds really recompiled the module's packages; distinct = (feature set, configuration class, circumstance tuple).",
		Assumptions: append([]string{
			"every build of a case uses the same garble binary, flags, seed, GOGARBLE, toolchain and target",
			"the clock is varied only by letting time pass; scheduling is varied through -p and machine load, not controlled",
		}, commonAssumptions...),
		ReplayUnit: "TestC03Replay",
		Units: []Unit{
			{Name: "TestC03", Kind: "e2e", Checks: [2]int{5, 40}, Workers: [2]int{3, 8}},
		},
	}
}

func init() {
	properties["C11"] = Property{
		Level: "exploration",
		Rule:  "cases = generated functions (typed statement grammar: assignments, if/else, 3-clause/condition/range loops over slice, string, int, map and channel, switch with fallthrough, labelled break/continue, goto, select, defer and recover, closures mutating captured variables, conditional panics, calls to earlier functions, methods with value and pointer receivers, generic functions, nil values (typed nil pointer in an interface, nil constant converted to a named pointer/slice/func/map type, nil error from a helper, type switch over a possibly nil error), conversions between named and unnamed types) each marked //garble:controlflow with drawn parameters (flatten_passes 0-3, junk_jumps 0..max, block_splits 0..max, trash_blocks 0-32, flatten_hardening none/xor/delegate_table/both) and called with 3-6 drawn argument tuples; oracle = results, trace and panic outcome per call equal the regular build's; rejected programs are re-built one function at a time. evaluations = functions. Non-trivial = the obfuscated build succeeded and the body contains a branch or loop; distinct = (set of statement kinds and parameter classes, function kind).",
		Assumptions: append([]string{
			"termination by construction (bounded loops, calls only to earlier functions); a garbled binary still running after 20 s, confirmed with 40 s, counts as 'junk or trash code executed'",
			"map ranges are used order-insensitively",
		}, commonAssumptions...),
		ReplayUnit: "TestC11Replay",
		Units: []Unit{
			{Name: "TestC11", Kind: "e2e", Checks: [2]int{4, 50}, Workers: [2]int{4, 8}},
		},
	}
}

func init() {
	properties["C09"] = Property{
		Level:       "exploration",
		Rule:        "cases = generated programs whose string, []byte, [N]byte and &[]byte literals are unique high-entropy markers with lengths drawn in and around the window (7, 8, 9, 12, 24, 64, 255-257, 700, 2047, 2048, 2049) in 24 syntactic positions (package variables, struct fields, map keys and values, slice elements, init, returns, arguments incl. any and generic parameters, method bodies, closures, locals, case labels, folded concatenations; plus the exempt contexts const declaration, typed constant, nosplit function), built with garble -literals (+ -tiny, -seed, module-only GOGARBLE); each marker is one evaluation, scored only if it is in the window, not in a documented exempt context, present in the regular binary and printed by the garbled program; then it must be absent from the garbled binary, and so must the -seed text. Non-trivial = scored marker; distinct = (position, form, length bucket).",
		Assumptions: append([]string{"byte composite literals are kept at most 300 bytes long to bound compile time"}, commonAssumptions...),
		ReplayUnit:  "TestC09Replay",
		Units: []Unit{
			{Name: "TestC09", Kind: "e2e", Checks: [2]int{5, 40}, Workers: [2]int{3, 8}},
		},
	}
}

func init() {
	properties["C10"] = Property{
		Level:       "exploration",
		Rule:        "cases = points of the grid crash kind (26: panics with string/error/Stringer/struct/custom error/error whose Error panics, nil dereference, index and slice bounds, division by zero, failed type assertions, nil-map write, closed/nil channel operations, mutex and channel deadlocks, re-panic in a deferred call, Goexit of main, unrecovered panic after a recovered one, nil func call, os.Exit(n), unlock of unlocked mutex, negative makeslice, stack overflow) x context (main, callee, goroutine, deferred call, closure) x mode (crash, crash under a recovering caller, position query) x GOTRACEBACK (unset, none, single, all, system), executed against generated programs (drawn own output on print/println/stderr/stdout incl. text that imitates runtime messages, crash code in main or in a dependency, drawn padding, -tiny alone or with -literals/-seed). Position queries are made in 10 source layouts, among them several statements on one source line, one-line if/for/switch/function bodies and deferred closures, runtime.Callers with CallersFrames. Oracle: -tiny stderr equals exactly the program's own output (taken from a dry run of the regular binary), stdout and exit status equal the regular build's; under recover the whole output equals the regular build's; position queries report no file and line 1. Non-trivial = the regular binary wrote runtime text for the point (there was something to silence) resp. a non-nil recovered value; distinct = (kind, context, mode, GOTRACEBACK).",
		Assumptions: append([]string{"GOTRACEBACK=crash (core dumps) and externally delivered signals are not explored", "concurrent map writes are left out: their detection is not deterministic"}, commonAssumptions...),
		ReplayUnit:  "TestC10Replay",
		Units: []Unit{
			{Name: "TestC10", Kind: "e2e", Checks: [2]int{3, 30}, Workers: [2]int{3, 8}},
		},
	}
}

func init() {
	properties["C04"] = Property{
		Level:       "exploration",
		Rule:        "cases = generated call chains of 3-9 frames across 1-3 packages and up to 3 files per package, each frame a function, value/pointer method, generic function, generic method, closure, goroutine entry (named helper or function literal), deferred call or deferred function literal, ending in a panic, debug.PrintStack or runtime.Caller queries; configuration from {default, -literals, -seed, -tags with tag-dependent files}; plus 0-4 lines of surrounding text (CR LF, missing final newline, 2000-byte lines, NUL bytes, look-alike trace lines). Oracle: `garble reverse` applied to the garbled program's stderr equals the stderr of the regular -trimpath build after removing code offsets, argument words and goroutine numbers; text without obfuscated tokens passes through byte for byte with exit status 1; a trace embedded in such text is reversed in place. Long-line law: the first trace line `garble reverse` changes is fed again preceded by unrelated text on the same line, once for every byte offset of the line relative to a 4 KiB and to a 64 KiB boundary; each must come back as the padding followed by what the line alone reverses to. Non-trivial = at least three obfuscated position lines and a frame outside package main; distinct = (frame kind sequence, end action, configuration).",
		Assumptions: append([]string{"every generated call sits on one line and starts with an identifier (call-site positions are what the statement covers)"}, commonAssumptions...),
		ReplayUnit:  "TestC04Replay",
		Units: []Unit{
			{Name: "TestC04", Kind: "e2e", Checks: [2]int{6, 60}, Workers: [2]int{4, 8}},
		},
	}
}

func init() {
	properties["C13"] = Property{
		Level:       "exploration",
		Rule:        "cases = generated multi-package programs (types, funcs, vars, consts, struct fields, unexported and interface methods, generic types, embedded aliases) x configuration {default, -seed, -tiny, module-only GOGARBLE}; three-way agreement per object: the build's name of every declared identifier is read from -debugdir by pairing original and garbled declarations; our own objectpath.For over the type-checked original yields the API-reachable objects; every such object the build renamed must be listed by `garble map` under exactly the build's name, every listed path must decode and agree, the listed import path must equal the one the build's import specs use, and `garble reverse` must map each listed obfuscated name back. evaluations = programs; objects-compared is reported as a label. Non-trivial = at least 15 compared objects of at least 4 kinds; distinct = (kinds, configuration, feature set).",
		Assumptions: append([]string{"objectpath encoding uses golang.org/x/tools v0.48.0, the version garble itself is built with", "original and garbled declarations correspond one to one in order (checked: a mismatch aborts the run as an infrastructure error)"}, commonAssumptions...),
		ReplayUnit:  "TestC13Replay",
		Units: []Unit{
			{Name: "TestC13", Kind: "e2e", Checks: [2]int{3, 25}, Workers: [2]int{3, 8}},
		},
	}
}

func init() {
	properties["C12"] = Property{
		Level:       "exploration",
		Rule:        "cases = (generated multi-package program, seeded or not, one changed input from {nothing (repeat on fresh caches), -tiny, -literals, the seed value, a build tag that adds a file, a comment-only edit in one package, the module path, GOGARBLE}); both sides' complete name tables come from `garble map` (whose agreement with the build is C13's subject), every listed objectpath is resolved against the type-checked original to classify it as package-scoped (funcs, types, vars, consts, methods, interface methods, embedded fields, the import path) or struct field; metamorphic oracle per the statement: with -seed names are equal under flag/tag/edit/GOGARBLE changes, all differ under another seed, package-scoped names differ and field names stay under another module path; without -seed names are stable across repeats, all differ under flag or GOGARBLE changes, and after an edit the edited package's package-scoped names differ while its field names and the names of packages that do not import it stay. A second unit runs `garble -seed test` on programs whose packages have internal and external test packages declaring same-named functions; the tests print those functions' run-time names, which must differ between a package and its external test package (another package). evaluations = build pairs resp. test runs; names-compared is reported as a label. Non-trivial = at least 10 names compared under an asserted relation; distinct = (changed input, seeded?, kinds present).",
		Assumptions: append([]string{"a chance equality of two 36..72-bit hashed names is ignored", "the Go version and GOOS/GOARCH inputs are not varied (one toolchain; another platform's std would have to be compiled for every case)"}, commonAssumptions...),
		ReplayUnit:  "TestC12Replay",
		Units: []Unit{
			{Name: "TestC12", Kind: "e2e", Checks: [2]int{4, 50}, Workers: [2]int{3, 8}},
			{Name: "TestC12TestVariant", Kind: "e2e", Checks: [2]int{2, 8}, Workers: [2]int{1, 3}},
		},
	}
}

func init() {
	properties["C19"] = Property{
		Level:       "fault_enumeration",
		Rule:        "cases = points of the grid command {build, run, reverse, map} x outcome {success, go list error (missing import), type error, compile error in a dependency, link error (body-less function with an empty assembly file), bad build flag, garble flag after the command} x pre-existing -debugdir target {none, absent, empty, owned with stale content, foreign files, foreign sub-directories, symlink to a foreign or to an owned directory, regular file} x cache state {module-cold, warm} x output inside or outside the source tree, each on a drawn program. Second unit (refusals, no build needed): -debugdir targets that are not garble's {regular file, empty file, symlink to a file, symlink and symlink-to-symlink to a foreign directory, directories holding drawn entries: hidden files only, names resembling the marker, the marker one level deeper, source/ and garbled/ trees without marker} x path spelling {absolute, relative, uncleaned .., trailing slash, separate argument} x command {build, run, test}: the surroundings are byte-identical afterwards, the command fails, TMPDIR gains nothing. Oracle: a recursive (mode, size, sha256, link target) snapshot of the source tree is unchanged apart from the requested output; the private TMPDIR is empty afterwards; a non-empty target without the marker is refused and byte-identical afterwards (also behind a symlink); an owned/absent/empty target of a successful build holds a source tree equal to the original files and a garbled tree in which every module Go file exists and parses, with no stale content. Non-trivial = a failing outcome or a -debugdir state other than none; distinct = (command, outcome, target state, cache state).",
		Assumptions: append([]string{"garble's stdout and stderr go to buffers, never to a pipe whose reader may exit first", "the grid is sampled by rapid in the quick tier and walked more densely in the thorough tier; it is not exhaustive"}, commonAssumptions...),
		ReplayUnit:  "TestC19Replay",
		Units: []Unit{
			{Name: "TestC19", Kind: "e2e", Checks: [2]int{6, 40}, Workers: [2]int{3, 8}},
			{Name: "TestC19Foreign", Kind: "e2e", Checks: [2]int{30, 400}, Workers: [2]int{2, 4}},
		},
	}
}

func init() {
	properties["C15"] = Property{
		Level:       "exploration",
		Rule:        "in-process cases = struct type descriptions (1-5 fields, embedded or named, field types drawn recursively from basic types, named types of several packages, pointers, slices, arrays, maps, channels, functions, interfaces, nested structs) each built three times with fresh go/types objects, different tags and aliases in front of field types: every field must get the same name from hashWithStruct in all builds, with and without a seed (the generator checks with types.IdenticalIgnoreTags that its variants really are identical). End-to-end cases = generated programs that convert, assign and select fields between identical struct types declared in different packages, behind aliases, as anonymous struct types and as results of generic code; the program must build and behave like the regular build and, reading the -debugdir sources, all struct type expressions that are identical ignoring tags must carry the same garbled field names. Non-trivial = description with at least three kinds of type constructors, resp. program with at least one group of identical struct types spanning packages; distinct = description hash resp. (feature set, configuration).",
		Assumptions: append([]string{"in the in-process part separate builds of one description stand for the separate garble processes that compile different packages"}, commonAssumptions...),
		ReplayUnit:  "TestC15Replay",
		Units: []Unit{
			{Name: "TestVerifC15Struct", Kind: "inproc", Pkg: ".", Checks: [2]int{20000, 500000}, Workers: [2]int{1, 4}},
			{Name: "TestC15", Kind: "e2e", Checks: [2]int{3, 25}, Workers: [2]int{3, 8}},
		},
	}
}

func init() {
	properties["C14"] = Property{
		Level:       "exploration",
		Rule:        "cases = (drawn feature set placed over a fixed five-package module whose packages include siblings sharing a string prefix (alpha, alphabet), a nested package (alpha/inner) and an unrelated one (beta), so that obfuscated and plain packages import each other in both directions) x GOGARBLE pattern list from a fixed set of 12 (exact paths, element prefixes, globs, comma lists, a std package, module and host prefixes, a string prefix that is not an element prefix, lists matching nothing), built with -literals; the expected partition comes from an independent implementation of the documented prefix-glob rule (itself pinned by hand-computed cases). Oracle: output equals the regular build's incl. file:line positions reported from inside unselected packages; every marker name and in-window literal of a selected package is absent from the binary, every one of an unselected package (present in the regular binary) is still there, likewise import paths; selected packages do not report original positions; runtime function names are intact; a list matching nothing being built is refused with the GOGARBLE message and no binary. Every case also tries one drawn list that selects nothing by construction (only commas, patterns of foreign hosts with stray commas, string prefixes of package paths that are not element prefixes): it must be refused. evaluations = scored markers. Non-trivial = partition with packages on both sides and an import crossing it (or a refused no-match list); distinct = (marker kind, side, pattern).",
		Assumptions: append([]string{"positions 'verbatim' is read as file base name and line (the directory part of an unselected package's position is replaced by garble's temporary directory name on the unchanged tree)"}, commonAssumptions...),
		ReplayUnit:  "TestC14Replay",
		Units: []Unit{
			{Name: "TestC14Model", Kind: "e2e", Fixed: true},
			{Name: "TestC14", Kind: "e2e", Checks: [2]int{4, 40}, Workers: [2]int{3, 8}},
		},
	}
}

func init() {
	properties["C08"] = Property{
		Level:       "exploration",
		Rule:        "end-to-end cases = generated programs in which, for each of up to 10 flow paths drawn from 20 (direct TypeOf, helper, helper's second parameter, helper chain, interface method, pointer, slice, variadic, function value, json.Marshal, json.Unmarshal, method expression, bound method value, FieldByName, nested/pointer/slice/map/array fields, generic instantiation, alias, map value, anonymous struct, helper in the using package), a distinct struct type reaches reflection only through that path; helper names are drawn to sort before or after their callers; declared in a dependency and used from a dependant or the same package; each program is built 2 (quick) or 5 (thorough) times on fresh caches because the analysis iterates maps. Second end-to-end unit (GOGARBLE boundary): three-package programs (main, a payload package, a wrapper package) under GOGARBLE lists that leave the wrapper package, the payload package or nothing outside; 2-6 paths per program, each = wrapper shape {none, value, pointer, slice, slice of pointers, map value, array, embedded, wrapper in wrapper, anonymous struct field, generic wrapper} x entry {reflect.TypeOf in main / in the wrapper package / in the payload package, reflect.ValueOf, json.Marshal in main and in a helper, json.Unmarshal, FieldByName} x payload with or without a nested second payload type. Oracle: the describer's output (type names, field names, method names, JSON keys, lookups by name) equals the regular build's in every build. In-process cases = name-pair tables for the injected replacer vs. strings.NewReplacer. evaluations = (program, flow) pairs. Non-trivial = every evaluated flow (its type would otherwise be obfuscated); distinct = (flow, configuration class, cross-package?).",
		Assumptions: append([]string{"only Name(), Kind(), Field(i).Name, Method(i).Name, FieldByName and JSON output are printed; String()/PkgPath() carry the obfuscated package qualifier by design"}, commonAssumptions...),
		ReplayUnit:  "TestC08Replay",
		Units: []Unit{
			{Name: "TestVerifC08Replacer", Kind: "inproc", Pkg: ".", Checks: [2]int{20000, 500000}, Workers: [2]int{1, 4}},
			{Name: "TestC08", Kind: "e2e", Checks: [2]int{3, 30}, Workers: [2]int{3, 8}},
			{Name: "TestC08Partial", Kind: "e2e", Checks: [2]int{4, 30}, Workers: [2]int{3, 8}},
		},
	}
}

func init() {
	properties["C07"] = Property{
		Level:       "fault_enumeration",
		Rule:        "cases = after a warm build of a three-package program whose reflection facts flow through a dependency that does not import reflect itself: 1-3 faults, each hitting 1-6 drawn entries of an area {index and data files of GARBLE_CACHE/build, the GOCACHE entries the build created, GARBLE_CACHE/tool/{link, link.lock, link.version}} with a kind {delete, empty, truncate to half, truncate to one byte}, or removing a whole directory {GARBLE_CACHE/build, GARBLE_CACHE/tool, GARBLE_CACHE}; then an edit {comment in main, code in main, literal in the middle package, none} and a rebuild, under {default, -literals, -seed}. Oracle: the rebuild succeeds and its binary (sha256) and its output incl. JSON keys and reflected names equal those of an isolated build of the edited source from module-cold caches. Non-trivial = at least one existing entry was hit; distinct = (fault area/kind multiset, edit, configuration).",
		Assumptions: append([]string{"entries are sampled by rapid (quick) and more densely (thorough), not enumerated exhaustively; deleting the whole GOCACHE (a full std rebuild) is left to the thorough tier of C03/C06"}, commonAssumptions...),
		ReplayUnit:  "TestC07Replay",
		Units: []Unit{
			{Name: "TestC07", Kind: "e2e", Checks: [2]int{5, 30}, Workers: [2]int{3, 8}},
		},
	}
}

func init() {
	properties["C06"] = Property{
		Level:       "exploration",
		Rule:        "cases = histories of 4-11 steps over ONE shared (GOCACHE, GARBLE_CACHE) that starts as the union of the warmed caches of the configurations the history visits: build under a drawn configuration {default, -tiny, -literals, -seed (three values, two of them 12-byte seeds sharing their first 8 bytes), -literals -tiny, GARBLE_EXPERIMENTAL_CONTROLFLOW=1, GOGARBLE = the module only, GOGARBLE = one package (alpha) and GOGARBLE = that package plus a sibling whose path has the first one's as a string prefix (alpha,alphabet) - drawn together} with or without -tags and -ldflags=-X (four values, targets in main and in a dependency), edit a drawn package {literal, new function, comment only, parameters of the //garble:controlflow directive of the program's control-flow function}, rebuild with nothing changed. Every history builds some configuration a second time: one build step in three goes back to the configuration of an earlier step and, when no drawn build does, a closing build of the first configuration is appended. Reference model: a memo table (configuration, flags, source digest) -> (sha256, program output) filled by the same command on private module-cold caches. Invariant after every build: same exit status, same program output and same binary as the reference; after 'rebuild with nothing changed': go build -v names no package of the module. Non-trivial = a configuration is built again after another build or an edit intervened; distinct = the sequence of (configuration class, edit kind).",
		Assumptions: append([]string{"reproducibility (C03) is presupposed: configurations with an open C03 finding are not part of the histories"}, commonAssumptions...),
		ReplayUnit:  "TestC06Replay",
		Units: []Unit{
			{Name: "TestC06", Kind: "e2e", Checks: [2]int{2, 8}, Workers: [2]int{3, 6}, Shrink: "3m"},
		},
	}
}

func init() {
	properties["C17"] = Property{
		Level:       "exploration",
		Rule:        "cases = trials of 2-6 simultaneous top-level garble builds over ONE shared GOCACHE, GARBLE_CACHE and TMPDIR: each process builds one of three small projects under {default, -tiny, -literals} with -p in {1,2,4,16} and a start offset from {0, 0.1, 0.5, 0.8, 3, 8, 15 s} (late starters meet a linker that another process is still building or has just installed); the shared cache starts warm, without the patched linker, or without GARBLE_CACHE at all. Oracle: every process exits 0 and its binary has the sha256 that the same command produces alone on private caches. Non-trivial = at least two processes overlapped in time (measured); distinct = (cache state, multiset of (project, configuration, -p)).",
		Assumptions: append([]string{"interleavings of independent OS processes are sampled (offsets, -p, machine load), not enumerated: a pass is evidence, not exhaustion"}, commonAssumptions...),
		ReplayUnit:  "TestC17Replay",
		Units: []Unit{
			{Name: "TestC17", Kind: "e2e", Checks: [2]int{2, 12}, Workers: [2]int{2, 3}, Shrink: "2m"},
		},
	}
	properties["C18"] = Property{
		Level:       "fault_enumeration",
		Rule:        "cases = a build of a two-package program from {module-cold, linker-less, GARBLE_CACHE-less} caches under {default, -literals} with -p in {1,4,16} is started and its whole process group killed with SIGKILL at an instant drawn stratified over [0, 1.05 T] (10 strata, T = measured duration of the uninterrupted reference build from the same starting state), once or twice in succession; then the same build is run again on the same caches. Oracle: the rerun exits 0 and its binary equals the uninterrupted build's. Non-trivial = a kill hit a still-running build; the phase label (listing, compiling, linker build or link, finishing) comes from the kill fraction; distinct = (cache state, configuration, phase sequence).",
		Assumptions: append([]string{"kill instants are sampled in time, not enumerated per write: a window of microseconds can be missed"}, commonAssumptions...),
		ReplayUnit:  "TestC18Replay",
		Units: []Unit{
			{Name: "TestC18", Kind: "e2e", Checks: [2]int{3, 15}, Workers: [2]int{2, 4}, Shrink: "2m"},
		},
	}
}
