package main

import "sort"

// Unit is one test function that explores (part of) a property.
type Unit struct {
	Name         string
	Kind         string    // "e2e": bin/checks.test; "inproc": go test inside /repo with an overlay
	Pkg          string    // inproc: package pattern relative to /repo
	Checks       [2]int    // rapid case count per worker: quick, thorough
	Workers      [2]int    // parallel worker processes: quick, thorough
	Steps        [2]int    // rapid.steps for state machines (0 = default)
	Shrink       string    // rapid.shrinktime override
	Fixed        bool      // not a rapid test (enumeration or frozen cases)
	Fuzz         bool      // native go fuzzing (thorough only)
	FuzzTime     string
	ThoroughOnly bool
	Env          []string
}

// Property describes how one property is decided.
type Property struct {
	Units       []Unit
	Level       string
	Rule        string
	Assumptions []string
	ReplayUnit  string
}

func propertyIDs() []string {
	var ids []string
	for id := range properties {
		ids = append(ids, id)
	}
	sort.Strings(ids)
	return ids
}

var commonAssumptions = []string{
	"go1.26.2 linux/amd64 toolchain from the module cache; CGO_ENABLED=0; generated programs import the standard library only",
	"the regular go toolchain is the reference: a program it builds and runs defines the expected behaviour",
	"absence of a violation is evidence over the explored cases only",
}

var properties = map[string]Property{}

func init() {
	properties["C16"] = Property{
		Level: "exploration",
		Rule: "cases = (salt 1-64 bytes, optional seed 8-32 bytes, name drawn from 10 classes: ASCII exported/unexported, underscore-leading, Unicode upper/lower/caseless, import paths, file.go:N positions, single characters, keyword-like) checked for validity, export preservation, agreement with an independent reference implementation and purity under interleaved unrelated hash calls; plus scopes of 2-3000 distinct identifiers under one salt checked for clashes. Non-trivial = at least one fix-up fired (leading digit, dash, underscore, case change) or, for scopes, >=100 names; distinct = (leading base64 symbol, fix-up set, length, identifier?, name class) resp. (scope style, size bucket, seeded).",
		Assumptions: []string{
			"the reference model was written from the documented algorithm (hash.go comments), not derived from the implementation's output",
			"a clash is only a violation when the two names' raw hash prefixes differ (a genuine sha256 prefix collision is allowed by the statement)",
		},
		ReplayUnit: "TestVerifC16Replay",
		Units: []Unit{
			{Name: "TestVerifC16Hash", Kind: "inproc", Pkg: ".", Checks: [2]int{150000, 1500000}, Workers: [2]int{1, 4}},
			{Name: "TestVerifC16Distinct", Kind: "inproc", Pkg: ".", Checks: [2]int{150, 1000}, Workers: [2]int{1, 4}},
			{Name: "FuzzVerifC16", Kind: "fuzz", Pkg: ".", Fuzz: true, FuzzTime: "60s", ThoroughOnly: true},
		},
	}
}
