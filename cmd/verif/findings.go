package main

import (
	"encoding/json"
	"os"
	"path/filepath"

	"verif/h"
)

// finding is one entry of known_findings.json. The file is read, never written.
type finding struct {
	Property string `json:"property"`
	Key      string `json:"key"`    // classifier key: the failing shape
	Status   string `json:"status"` // "known" or "fixed"
	What     string `json:"what"`
	Commit   string `json:"commit,omitempty"`
	Repro    string `json:"repro"` // test function that re-executes the frozen reproduction
	Kind     string `json:"kind"`  // e2e | inproc
	Pkg      string `json:"pkg,omitempty"`
}

func loadFindings() []finding {
	data, err := os.ReadFile(filepath.Join(h.VerifDir, "known_findings.json"))
	if err != nil {
		return nil
	}
	var doc struct {
		Findings []finding `json:"findings"`
	}
	if err := json.Unmarshal(data, &doc); err != nil {
		panic(h.Infraf("known_findings.json: %v", err))
	}
	return doc.Findings
}
