package main

import (
	"fmt"
	"os"
	"strings"

	"verif/h"
)

// probe runs one garble command by hand inside a fresh case box:
//
//	verif probe <config> <level> <dir> <garble args...>
//
// config is like "default", "literals+tiny", "seed", "modonly", "ctrlflow";
// the box (caches, TMPDIR) is kept under /tmp/verif-probe and printed.
func probe(args []string) int {
	defer exitOnInfra()
	if len(args) < 4 {
		fmt.Fprintln(os.Stderr, "usage: verif probe <config> <rt|std|test> <dir> <garble args...>")
		return 2
	}
	var cfg h.Config
	for _, part := range strings.Split(args[0], "+") {
		switch {
		case part == "tiny":
			cfg.Tiny = true
		case part == "literals":
			cfg.Literals = true
		case part == "seed":
			cfg.Seed = "AAECAwQFBgc"
		case part == "modonly":
			cfg.GOGARBLE = "example.com,zqmod.test,zq.example.org,zqsimple"
		case part == "ctrlflow":
			cfg.ControlFlow = true
		case strings.HasPrefix(part, "GOGARBLE="):
			cfg.GOGARBLE = strings.TrimPrefix(part, "GOGARBLE=")
		}
	}
	os.MkdirAll("/tmp/verif-probe", 0o755)
	bin := h.BuildGarble("/tmp/verif-probe")
	os.Setenv("VERIF_GARBLE", bin)
	box := h.NewCaseBox("/tmp/verif-probe", cfg, args[1])
	fmt.Println("box:", box.Root)
	var extraEnv []string
	rest := args[3:]
	for len(rest) > 0 && strings.Contains(rest[0], "=") && !strings.HasPrefix(rest[0], "-") {
		extraEnv = append(extraEnv, rest[0])
		rest = rest[1:]
	}
	var r h.Result
	if len(rest) > 0 && rest[0] == "go" {
		r = box.Go(args[2], extraEnv, rest[1:]...)
	} else {
		r = box.GarbleX(cfg, args[2], nil, extraEnv, rest...)
	}
	fmt.Print(r.Brief())
	return r.Exit
}
