// Command verif is the driver of the garble verification checks.
//
//	verif setup
//	verif run <property> quick|thorough
//	verif replay <property> <path>
//	verif list
//
// Exit status of run: 0 the property held on everything explored (known
// findings are announced with KNOWN-FINDING lines), 1 a violation was found
// (a line "VIOLATION property=<id> replay=<path>" is printed), 2 the machinery
// itself failed (never a verdict about garble).
package main

import (
	"encoding/json"
	"fmt"
	"os"
	"os/signal"
	"path/filepath"
	"sort"
	"strings"
	"sync"
	"syscall"
	"time"

	"verif/h"
	"verif/stats"
)

func main() {
	if len(os.Args) < 2 {
		usage()
	}
	switch os.Args[1] {
	case "setup":
		setup()
	case "run":
		if len(os.Args) != 4 {
			usage()
		}
		os.Exit(run(os.Args[2], os.Args[3]))
	case "replay":
		if len(os.Args) != 4 {
			usage()
		}
		os.Exit(replay(os.Args[2], os.Args[3]))
	case "probe":
		os.Exit(probe(os.Args[2:]))
	case "list":
		for _, id := range propertyIDs() {
			fmt.Println(id)
		}
	default:
		usage()
	}
}

func usage() {
	fmt.Fprintln(os.Stderr, "usage: verif setup | run <id> quick|thorough | replay <id> <path> | list")
	os.Exit(2)
}

func setup() {
	defer exitOnInfra()
	start := time.Now()
	p := h.PlainBase()
	fmt.Printf("plain base ready at %s (%.0fs)\n", p, time.Since(start).Seconds())
	// Warm the config bases of the standard configurations for the current
	// tree (accelerators only: they are rebuilt lazily for any other garble binary).
	work, err := os.MkdirTemp("", "verif-setup-")
	h.Must(err)
	defer h.RemoveAll(work)
	bin := h.BuildGarble(work)
	hash := h.FileSHA(bin)[:16]
	type job struct {
		cfg   h.Config
		level string
	}
	var jobs []job
	seed := "AAECAwQFBgc"
	mod := "example.com,zqmod.test,zq.example.org,zqsimple"
	for _, c := range []h.Config{{}, {Tiny: true}, {Literals: true}, {Seed: seed}, {Literals: true, Tiny: true}, {Literals: true, Tiny: true, Seed: seed},
		{GOGARBLE: mod}, {GOGARBLE: mod, Literals: true}, {ControlFlow: true}, {ControlFlow: true, Literals: true}, {ControlFlow: true, Seed: seed},
		// C06's sibling pattern lists and C08's partial scopes (keep in step with checks/c06_test.go and checks/c08p_test.go)
		{GOGARBLE: "zqsimple/alpha"}, {GOGARBLE: "zqsimple/alpha,zqsimple/alphabet"},
		{GOGARBLE: "zqpart/secret,zqpart/cmd"}, {GOGARBLE: "zqpart/secret,zqpart/cmd", Literals: true}, {GOGARBLE: "zqpart/api,zqpart/cmd"}} {
		jobs = append(jobs, job{c, h.LevelStd})
	}
	jobs = append(jobs, job{h.Config{}, h.LevelTest}, job{h.Config{Literals: true, Tiny: true, Seed: seed}, h.LevelTest}, job{h.Config{Seed: seed}, h.LevelTest})
	sem := make(chan struct{}, 4)
	var wg sync.WaitGroup
	var mu sync.Mutex
	failed := 0
	for _, j := range jobs {
		wg.Add(1)
		go func(j job) {
			defer wg.Done()
			sem <- struct{}{}
			defer func() { <-sem }()
			defer func() {
				if r := recover(); r != nil {
					mu.Lock()
					failed++
					fmt.Fprintf(os.Stderr, "config base %s/%s: %v\n", j.cfg.Key(), j.level, r)
					mu.Unlock()
				}
			}()
			t0 := time.Now()
			h.ConfigBase(bin, hash, j.cfg, j.level)
			mu.Lock()
			fmt.Printf("config base %s/%s ready (%.0fs)\n", j.cfg.Key(), j.level, time.Since(t0).Seconds())
			mu.Unlock()
		}(j)
	}
	wg.Wait()
	if failed > 0 {
		// not fatal: the checks build what they need lazily
		fmt.Printf("%d config bases could not be prebuilt; checks will build them on demand\n", failed)
	}
	fmt.Printf("setup done in %.0fs\n", time.Since(start).Seconds())
}

func exitOnInfra() {
	if r := recover(); r != nil {
		if ie, ok := r.(h.InfraError); ok {
			fmt.Fprintln(os.Stderr, "INFRA:", ie.Error())
			os.Exit(2)
		}
		panic(r)
	}
}

// ---------------------------------------------------------------------------

type runCtx struct {
	id, tier string
	seed     int64
	work     string // scratch root, removed at exit
	garble   string
	replays  string
	start    time.Time
	exclude  []string // classifier keys of open known findings (generators steer around them)
}

func run(id, tier string) (code int) {
	prop, ok := properties[id]
	if !ok {
		fmt.Fprintf(os.Stderr, "unknown property %q\n", id)
		return 2
	}
	if tier != "quick" && tier != "thorough" {
		usage()
	}
	os.Setenv("VERIF_TIER", tier)
	rc := &runCtx{id: id, tier: tier, seed: h.Seed(), start: time.Now()}
	var err error
	rc.work, err = os.MkdirTemp("", "verif-"+id+"-")
	if err != nil {
		fmt.Fprintln(os.Stderr, "INFRA:", err)
		return 2
	}
	// Clean up on exit and on signals.
	sig := make(chan os.Signal, 1)
	signal.Notify(sig, syscall.SIGINT, syscall.SIGTERM)
	go func() {
		<-sig
		h.RemoveAll(rc.work)
		os.Exit(2)
	}()
	defer h.RemoveAll(rc.work)
	defer func() {
		if r := recover(); r != nil {
			if ie, ok := r.(h.InfraError); ok {
				fmt.Fprintln(os.Stderr, "INFRA:", ie.Error())
				code = 2
				return
			}
			panic(r)
		}
	}()

	rc.replays = filepath.Join(h.VerifDir, "replays", id)
	os.MkdirAll(rc.replays, 0o755)
	pruneOldReplays(rc.replays)

	known := loadFindings()
	for _, f := range known {
		if f.Property == id && f.Status == "known" {
			rc.exclude = append(rc.exclude, f.Key)
		}
	}
	needGarble := false
	for _, u := range prop.Units {
		if u.Kind == "e2e" {
			needGarble = true
		}
	}
	for _, f := range known {
		if f.Property == id && f.Kind == "e2e" {
			needGarble = true
		}
	}
	if needGarble {
		rc.garble = h.BuildGarble(rc.work)
		fmt.Printf("[%s %s seed=%d] garble built from %s (%s) in %.1fs\n", id, tier, rc.seed, h.RepoDir, h.FileSHA(rc.garble)[:12], time.Since(rc.start).Seconds())
	}

	var merged []*stats.File
	infra := []string{}
	violations := []stats.Violation{}
	knownLines := []string{}

	// 1. reproductions of listed findings for this property
	for _, f := range known {
		if f.Property != id {
			continue
		}
		res := rc.runUnit(Unit{Name: f.Repro, Kind: f.Kind, Pkg: f.Pkg, Fixed: true}, 0, map[string]string{"VERIF_FINDING": f.Key})
		if len(res.st.Infra) > 0 || res.died {
			infra = append(infra, fmt.Sprintf("finding %s: %s %s", f.Key, strings.Join(res.st.Infra, "; "), res.tail))
			continue
		}
		reproduces := len(res.st.Violations) > 0
		switch {
		case f.Status == "known" && reproduces:
			knownLines = append(knownLines, fmt.Sprintf("KNOWN-FINDING: property=%s %s: %s", id, f.Key, f.What))
		case f.Status == "known" && !reproduces:
			// no longer reproduces: silent
		case f.Status == "fixed" && reproduces:
			violations = append(violations, res.st.Violations...)
		}
		res.st.Violations = nil
		res.st.Samples = nil
		merged = append(merged, res.st)
	}

	// 2. the generated search. One round runs every unit with its workers; a
	// further round (same cases counts, worker seeds that no earlier round
	// used) is added only while a run without violations and infrastructure
	// problems has produced fewer than two distinct non-trivial cases or no
	// sample: more exploration, never less, and the evidence says so.
	searchRound := func(round int) (ran int) {
		for _, u := range prop.Units {
			if u.ThoroughOnly && tier != "thorough" {
				continue
			}
			if u.Pending && os.Getenv("VERIF_PENDING") != "1" {
				continue
			}
			if only := os.Getenv("VERIF_UNITS"); only != "" && !strings.Contains(","+only+",", ","+u.Name+",") {
				continue // development aid: run a subset of a property's units (evidence then goes to VERIF_EVIDENCE_DIR)
			}
			if round > 0 && (u.Fixed || u.Fuzz || u.Kind == "fuzz") {
				continue // enumerations and fuzz campaigns do not change with the worker seed
			}
			workers := u.Workers[tierIdx(tier)]
			if workers < 1 {
				workers = 1
			}
			ran++
			var wg sync.WaitGroup
			results := make([]unitResult, workers)
			for w := 0; w < workers; w++ {
				wg.Add(1)
				go func(w int) {
					defer wg.Done()
					results[w] = rc.runUnit(u, round*workers+w, nil)
				}(w)
			}
			wg.Wait()
			for w, res := range results {
				merged = append(merged, res.st)
				if len(res.st.Infra) > 0 {
					infra = append(infra, res.st.Infra...)
				}
				for _, v := range res.st.Violations {
					violations = append(violations, v)
				}
				if res.died && len(res.st.Violations) == 0 {
					infra = append(infra, fmt.Sprintf("%s worker %d ended abnormally (exit %d): %s", u.Name, w, res.exit, res.tail))
				}
				if !res.died && res.exit != 0 && len(res.st.Violations) == 0 && len(res.st.Infra) == 0 {
					infra = append(infra, fmt.Sprintf("%s worker %d failed without recording a violation (exit %d): %s", u.Name, w, res.exit, res.tail))
				}
				if res.exit == 0 && res.st.Requested > 0 && res.st.Completed < res.st.Requested {
					infra = append(infra, fmt.Sprintf("%s worker %d completed %d of %d requested cases", u.Name, w, res.st.Completed, res.st.Requested))
				}
			}
		}
		return ran
	}
	covered := func() (distinct, samples int) {
		seen := map[string]bool{}
		for _, f := range merged {
			if f == nil {
				continue
			}
			for _, d := range f.Distinct {
				seen[f.Test+"/"+d] = true
			}
			samples += len(f.Samples)
		}
		return len(seen), samples
	}
	searchRound(0)
	for round := 1; round <= 3; round++ {
		d, n := covered()
		if (d >= 2 && n >= 1) || len(violations) > 0 || len(infra) > 0 {
			break
		}
		note := fmt.Sprintf("round %d of the generated search added: the rounds before it produced %d distinct non-trivial cases and %d samples", round+1, d, n)
		fmt.Printf("[%s %s] %s\n", id, tier, note)
		merged = append(merged, &stats.File{Test: "driver", Labels: map[string]int{"additional-search-rounds": 1}, Excluded: map[string]int{}, Notes: []string{note}})
		if searchRound(round) == 0 {
			break
		}
	}

	// 3. verdict
	// A violation whose classifier key is a listed known finding is announced, not alarmed.
	knownKeys := map[string]finding{}
	for _, f := range known {
		if f.Property == id && f.Status == "known" {
			knownKeys[f.Key] = f
		}
	}
	var alarms []stats.Violation
	seenKnown := map[string]bool{}
	for _, l := range knownLines {
		seenKnown[l] = true
	}
	for _, v := range violations {
		if f, ok := knownKeys[v.Key]; ok {
			l := fmt.Sprintf("KNOWN-FINDING: property=%s %s: %s", id, f.Key, f.What)
			if !seenKnown[l] {
				seenKnown[l] = true
				knownLines = append(knownLines, l)
			}
			continue
		}
		alarms = append(alarms, v)
	}
	sort.Strings(knownLines)
	for _, l := range knownLines {
		fmt.Println(l)
	}

	ev := buildEvidence(id, tier, rc.seed, prop, merged, len(alarms), time.Since(rc.start), knownLines, infra)
	writeEvidence(id, ev)

	if len(alarms) > 0 {
		// report the last dump of each key: shrinking makes later ones smaller
		last := map[string]stats.Violation{}
		var order []string
		for _, v := range alarms {
			if _, ok := last[v.Key]; !ok {
				order = append(order, v.Key)
			}
			last[v.Key] = v
		}
		for _, k := range order {
			v := last[k]
			fmt.Printf("VIOLATION property=%s replay=%s\n", id, v.Replay)
			fmt.Printf("  key=%s\n  %s\n", v.Key, strings.ReplaceAll(h.Clip(v.Msg, 1500), "\n", "\n  "))
		}
		// drop the intermediate dumps
		keep := map[string]bool{}
		for _, v := range last {
			keep[v.Replay] = true
		}
		for _, v := range alarms {
			if !keep[v.Replay] {
				os.RemoveAll(v.Replay)
			}
		}
		return 1
	}
	if len(infra) > 0 {
		for _, s := range infra {
			fmt.Fprintln(os.Stderr, "INFRA:", h.Clip(s, 3000))
		}
		return 2
	}
	fmt.Printf("[%s %s] ok: %d evaluations, %d distinct non-trivial, %.0fs\n", id, tier, ev.Coverage.Evaluations, ev.Coverage.DistinctNontrivial, time.Since(rc.start).Seconds())
	return 0
}

func tierIdx(tier string) int {
	if tier == "thorough" {
		return 1
	}
	return 0
}

func pruneOldReplays(dir string) {
	ents, _ := os.ReadDir(dir)
	if len(ents) <= 30 {
		return
	}
	type e struct {
		name string
		mod  time.Time
	}
	var es []e
	for _, x := range ents {
		if info, err := x.Info(); err == nil {
			es = append(es, e{x.Name(), info.ModTime()})
		}
	}
	sort.Slice(es, func(i, j int) bool { return es[i].mod.Before(es[j].mod) })
	for i := 0; i < len(es)-30; i++ {
		os.RemoveAll(filepath.Join(dir, es[i].name))
	}
}

// ---------------------------------------------------------------------------

type unitResult struct {
	st   *stats.File
	exit int
	died bool // no stats file or not marked passed and no violation
	tail string
}

// rapidSeed derives the worker's rapid seed from VERIF_SEED (never 0). rapid
// seeds case i of a run with start+i(i+1)/2, so the starts of two workers (and
// of two VERIF_SEED values) must lie further apart than any run is long:
// neighbouring starts would make the workers repeat each other's first cases.
// With a stride of 2^32 per worker and 2^40 per VERIF_SEED value, runs of up
// to 92000 cases and 256 workers never share a case seed.
func rapidSeed(seed int64, w int) int64 {
	s := (1 + seed<<40 + int64(w)<<32) & (1<<62 - 1)
	if s == 0 {
		s = 1
	}
	return s
}

func (rc *runCtx) runUnit(u Unit, w int, extraEnv map[string]string) unitResult {
	if u.Fuzz || u.Kind == "fuzz" {
		input := ""
		if p := extraEnv["VERIF_REPLAY_CASE"]; p != "" {
			input = filepath.Join(p, "input")
		}
		return runFuzz(rc, u, input)
	}
	ti := tierIdx(rc.tier)
	statsPath := filepath.Join(rc.work, fmt.Sprintf("stats-%s-%d-%d.json", u.Name, w, time.Now().UnixNano()))
	workDir := filepath.Join(rc.work, fmt.Sprintf("w-%s-%d", u.Name, w))
	os.MkdirAll(workDir, 0o755)
	env := []string{
		"HOME=" + os.Getenv("HOME"),
		"VERIF_STATS=" + statsPath,
		"VERIF_REPLAY_DIR=" + rc.replays,
		"VERIF_GARBLE=" + rc.garble,
		"VERIF_WORK=" + workDir,
		"VERIF_TIER=" + rc.tier,
		fmt.Sprintf("VERIF_SEED=%d", rc.seed),
		fmt.Sprintf("VERIF_WORKER=%d", w),
		fmt.Sprintf("VERIF_WORKERS=%d", max(1, u.Workers[ti])),
		"TMPDIR=" + workDir,
	}
	for k, v := range extraEnv {
		env = append(env, k+"="+v)
	}
	if len(rc.exclude) > 0 {
		env = append(env, "VERIF_EXCLUDE="+strings.Join(rc.exclude, ","))
	}
	for _, kv := range u.Env {
		env = append(env, kv)
	}
	checks := u.Checks[ti]
	shrink := u.Shrink
	if shrink == "" {
		shrink = [2]string{"60s", "5m"}[ti]
		if u.Kind == "inproc" {
			shrink = "20s"
		}
	}
	var testArgs []string
	{
		testArgs = []string{"-run", "^" + u.Name + "$", "-timeout", "0", "-count", "1"}
		if !u.Fixed {
			testArgs = append(testArgs,
				fmt.Sprintf("-rapid.checks=%d", max(1, checks)),
				fmt.Sprintf("-rapid.seed=%d", rapidSeed(rc.seed, w)),
				"-rapid.shrinktime="+shrink,
				"-rapid.nofailfile",
			)
			if st := u.Steps[ti]; st > 0 {
				testArgs = append(testArgs, fmt.Sprintf("-rapid.steps=%d", st))
			}
		}
	}
	var res h.Result
	if u.Kind == "inproc" {
		res = runInproc(rc, u, env, testArgs, workDir)
	} else {
		bin := filepath.Join(h.VerifDir, "bin", "checks.test")
		argv := []string{bin}
		for _, a := range testArgs {
			if strings.HasPrefix(a, "-") && !strings.HasPrefix(a, "-rapid.") {
				a = "-test." + a[1:]
			}
			argv = append(argv, a)
		}
		res = h.Run(h.Cmd{Dir: workDir, Env: h.CleanEnv(env...), Args: argv, Timeout: 12 * time.Hour})
	}
	out := res.Stdout + res.Stderr
	st, err := stats.Read(statsPath)
	ur := unitResult{st: st, exit: res.Exit, tail: h.Clip(out, 3000)}
	if err != nil {
		ur.st = &stats.File{Labels: map[string]int{}, Excluded: map[string]int{}}
		ur.died = true
		return ur
	}
	if !st.Passed && len(st.Violations) == 0 && len(st.Infra) == 0 {
		ur.died = true
	}
	os.Remove(statsPath)
	h.RemoveAll(workDir)
	return ur
}

// runInproc runs an injected in-package test inside /repo without touching it:
// the test files under /verif/_inproc/<dir> are overlaid onto the package
// directory and rapid + verif/stats are added through an alternative go.mod.
func runInproc(rc *runCtx, u Unit, env, testArgs []string, workDir string) h.Result {
	modfile, overlay := prepareInproc(rc.work, u.Pkg)
	args := []string{"go", "test", "-modfile=" + modfile, "-overlay=" + overlay, "-vet=off", u.Pkg}
	args = append(args, testArgs...)
	genv := h.CleanEnv(env...)
	genv = h.MergeEnv(genv, []string{"GOFLAGS=-mod=mod", "CGO_ENABLED=0"})
	return h.Run(h.Cmd{Dir: h.RepoDir, Env: genv, Args: args, Timeout: 12 * time.Hour})
}

var inprocMu sync.Mutex

func prepareInproc(work, pkg string) (modfile, overlay string) {
	inprocMu.Lock()
	defer inprocMu.Unlock()
	dir := filepath.Join(work, "inproc")
	os.MkdirAll(dir, 0o755)
	modfile = filepath.Join(dir, "alt.mod")
	overlay = filepath.Join(dir, "overlay-"+h.StrSHA(pkg)+".json")
	if _, err := os.Stat(modfile); err != nil {
		gomod, err := os.ReadFile(filepath.Join(h.RepoDir, "go.mod"))
		h.Must(err)
		alt := string(gomod) + "\nrequire pgregory.net/rapid v1.3.0\nrequire verif v0.0.0\nreplace verif => " + h.VerifDir + "\n"
		h.Must(os.WriteFile(modfile, []byte(alt), 0o644))
		gosum, _ := os.ReadFile(filepath.Join(h.RepoDir, "go.sum"))
		vsum, _ := os.ReadFile(filepath.Join(h.VerifDir, "go.sum"))
		h.Must(os.WriteFile(filepath.Join(dir, "alt.sum"), append(gosum, vsum...), 0o644))
	}
	if _, err := os.Stat(overlay); err != nil {
		srcDir := filepath.Join(h.VerifDir, "_inproc", inprocDir(pkg))
		ents, err := os.ReadDir(srcDir)
		h.Must(err)
		repl := map[string]string{}
		for _, e := range ents {
			if strings.HasSuffix(e.Name(), ".go") {
				repl[filepath.Join(h.RepoDir, strings.TrimPrefix(pkg, "./"), "zz_verif_"+e.Name())] = filepath.Join(srcDir, e.Name())
			}
		}
		data, _ := json.Marshal(map[string]any{"Replace": repl})
		h.Must(os.WriteFile(overlay, data, 0o644))
	}
	return modfile, overlay
}

func inprocDir(pkg string) string {
	if pkg == "." {
		return "main"
	}
	return filepath.Base(pkg)
}

// ---------------------------------------------------------------------------

func replay(id, path string) int {
	prop, ok := properties[id]
	if !ok {
		fmt.Fprintf(os.Stderr, "unknown property %q\n", id)
		return 2
	}
	defer exitOnInfra()
	rc := &runCtx{id: id, tier: h.Tier(), seed: h.Seed(), start: time.Now()}
	var err error
	rc.work, err = os.MkdirTemp("", "verif-replay-"+id+"-")
	h.Must(err)
	defer h.RemoveAll(rc.work)
	rc.replays = filepath.Join(rc.work, "replays")
	for _, f := range loadFindings() {
		if f.Property == id && f.Status == "known" {
			rc.exclude = append(rc.exclude, f.Key) // a replay judges the case, not the listed findings
		}
	}
	rc.garble = h.BuildGarble(rc.work)
	abs, _ := filepath.Abs(path)
	// case.json names the unit that can re-execute it
	unitName, kind, pkg := prop.ReplayUnit, "e2e", ""
	if data, err := os.ReadFile(filepath.Join(abs, "case.json")); err == nil {
		var meta struct {
			ReplayTest string `json:"replay_test"`
			Kind       string `json:"replay_kind"`
			Pkg        string `json:"replay_pkg"`
		}
		if json.Unmarshal(data, &meta) == nil && meta.ReplayTest != "" {
			unitName, kind, pkg = meta.ReplayTest, meta.Kind, meta.Pkg
		}
	}
	if unitName == "" {
		fmt.Fprintf(os.Stderr, "no replay unit known for %s\n", id)
		return 2
	}
	res := rc.runUnit(Unit{Name: unitName, Kind: kind, Pkg: pkg, Fixed: true}, 0, map[string]string{"VERIF_REPLAY_CASE": abs})
	if len(res.st.Violations) > 0 {
		v := res.st.Violations[len(res.st.Violations)-1]
		fmt.Printf("VIOLATION property=%s replay=%s\n  %s\n", id, path, strings.ReplaceAll(h.Clip(v.Msg, 3000), "\n", "\n  "))
		return 1
	}
	if res.died || len(res.st.Infra) > 0 {
		fmt.Fprintf(os.Stderr, "INFRA: replay did not complete: %s %s\n", strings.Join(res.st.Infra, "; "), res.tail)
		return 2
	}
	fmt.Printf("replay of %s: property holds on this case\n", path)
	return 0
}
