package progen

import (
	"fmt"
	"strings"
)

// marker literal of exactly n bytes, unique per (feature, slot), with a
// pseudo-random high-entropy tail so that it cannot occur by chance.
func litMarker(fi, slot, n int) string {
	head := fmt.Sprintf("Lq%dz%dq", fi, slot)
	var b strings.Builder
	b.WriteString(head)
	x := uint32(fi*7919+slot*104729) | 1
	const alphabet = "ABCDEFGHJKLMNPQRSTUVWXYZabcdefghijkmnopqrstuvwxyz23456789"
	for b.Len() < n {
		x ^= x << 13
		x ^= x >> 17
		x ^= x << 5
		b.WriteByte(alphabet[x%uint32(len(alphabet))])
	}
	s := b.String()
	if len(s) > n {
		// very short literal: keep it unique with what fits
		s = s[:n]
	}
	return s
}

func byteElems(s string) string {
	var parts []string
	for i := 0; i < len(s); i++ {
		parts = append(parts, fmt.Sprintf("%d", s[i]))
	}
	return strings.Join(parts, ", ")
}

var litLengths = []int{8, 9, 12, 24, 64, 255, 256, 257, 700, 2047, 2048, 7, 2049}

func init() {
	register("literals", featDef{
		needs: []string{"litmarkers"},
		tags:  []string{"literals"},
		gen: func(fi int, f Feat, p *Program) (string, string) {
			var prov, use strings.Builder
			slot := 0
			add := func(n int, form, ctx, exempt string) string {
				slot++
				if form == "concat" {
					n += 4
				}
				m := litMarker(fi, slot, n)
				p.Lits = append(p.Lits, LitInfo{Text: m, Len: len(m), Form: form, Ctx: ctx, Exempt: exempt, Pkg: p.curPkg})
				return m
			}
			q := func(s string) string { return fmt.Sprintf("%q", s) }
			ln := func(k int) int { return litLengths[(f.P[0]+k)%len(litLengths)] }
			big := func(k int) int { // keep byte composite literals small enough to compile quickly
				n := ln(k)
				if n > 300 {
					n = 300 - k
				}
				return n
			}
			mk := marker(fi)
			// --- provider declarations
			fmt.Fprintf(&prov, "var Lv%sw1 = %s\n", mk, q(add(ln(0), "string", "var", "")))
			fmt.Fprintf(&prov, "var lv%sw2 = []byte{%s}\n", mk, byteElems(add(big(1), "bytes", "var", "")))
			m3 := add(big(2), "array", "var", "")
			fmt.Fprintf(&prov, "var lv%sw3 = [%d]byte{%s}\n", mk, len(m3), byteElems(m3))
			fmt.Fprintf(&prov, "var lv%sw4 = &[]byte{%s}\n", mk, byteElems(add(big(3), "bytes", "var-ptr", "")))
			fmt.Fprintf(&prov, "const Lc%sw5 = %s\n", mk, q(add(ln(4), "string", "const-decl", "const declaration")))
			fmt.Fprintf(&prov, "type lt%sw string\n\nconst lc%sw6 lt%sw = %s\n", mk, mk, mk, q(add(ln(5), "string", "typed-const", "named constant type")))
			fmt.Fprintf(&prov, "var lv%sw7 lt%sw = %s\n", mk, mk, q(add(ln(6), "string", "typed-var", "named constant type")))
			c8 := add(ln(7), "concat", "var-concat", "")
			fmt.Fprintf(&prov, "var lv%sw8 = %s + %s\n", mk, q(c8[:len(c8)/2]), q(c8[len(c8)/2:]))
			fmt.Fprintf(&prov, "type Ls%sw struct {\n\tA string\n\tb []byte\n}\n", mk)
			fmt.Fprintf(&prov, "var lv%sw9 = Ls%sw{A: %s, b: []byte{%s}}\n", mk, mk, q(add(ln(8), "string", "struct-field", "")), byteElems(add(big(9), "bytes", "struct-field", "")))
			fmt.Fprintf(&prov, "var lm%sw = map[string]string{%s: %s}\n", mk, q(add(ln(10), "string", "map-key", "")), q(add(ln(11), "string", "map-value", "")))
			fmt.Fprintf(&prov, "var ls%sw = []string{%s, \"x\"}\n", mk, q(add(ln(12), "string", "slice-elem", "")))
			fmt.Fprintf(&prov, "var li%sw string\n\nfunc init() { li%sw = %s }\n", mk, mk, q(add(ln(13), "string", "init", "")))
			fmt.Fprintf(&prov, "func lf%swRet() string { return %s }\n", mk, q(add(ln(14), "string", "return", "")))
			fmt.Fprintf(&prov, "func lf%swArg(s string) string { return s }\nfunc lf%swAny(v any) string { s, _ := v.(string); return s }\nfunc lf%swGen[T any](v T) T { return v }\n", mk, mk, mk)
			fmt.Fprintf(&prov, "func (l Ls%sw) Meth() string { return l.A + %s }\n", mk, q(add(ln(15), "string", "method-body", "")))
			fmt.Fprintf(&prov, "var lcl%sw = func() string { return %s }\n", mk, q(add(ln(16), "string", "closure", "")))
			fmt.Fprintf(&prov, "//go:nosplit\nfunc lf%swNosplit() string { return %s }\n", mk, q(add(ln(17), "string", "nosplit", "nosplit function")))
			fmt.Fprintf(&prov, "func lf%swSwitch(s string) int {\n\tswitch s {\n\tcase %s:\n\t\treturn 1\n\t}\n\treturn 0\n}\n", mk, q(add(ln(18), "string", "case-label", "")))
			fmt.Fprintf(&prov, "func lf%swLocal() (string, []byte) {\n\ta := %s\n\tb := []byte{%s}\n\treturn a, b\n}\n", mk, q(add(ln(19), "string", "local", "")), byteElems(add(big(20), "bytes", "local", "")))
			// a -ldflags=-X target, and a local variable that merely shares its name
			target := "Lx" + mk + "w"
			fmt.Fprintf(&prov, "var %s = %s\n", target, q(add(ln(24), "string", "ldflags-target-decl", "-ldflags=-X target")))
			fmt.Fprintf(&prov, "func lf%swShadow() string {\n\tvar %s = %s\n\treturn %s\n}\n", mk, target, q(add(ln(25), "string", "local-named-like-ldflags-target", "")), target)
			sym := "main"
			if p.curPkg != 0 {
				sym = p.Spec.ImportPath(p.curPkg)
			}
			p.ExtraLd = append(p.ExtraLd, fmt.Sprintf("-X '%s.%s=injected-%s'", sym, target, mk))
			argLit, anyLit, genLit := add(ln(21), "string", "argument", ""), add(ln(22), "string", "any-argument", ""), add(ln(23), "string", "generic-argument", "")
			// --- everything is printed, so nothing is dead code
			fmt.Fprintf(&prov, "func Lits%sw(emit func(string)) {\n", mk)
			for _, e := range []string{
				"Lv" + mk + "w1", "string(lv" + mk + "w2)", "string(lv" + mk + "w3[:])", "string(*lv" + mk + "w4)", "Lc" + mk + "w5", "string(lc" + mk + "w6)", "string(lv" + mk + "w7)", "lv" + mk + "w8",
				"lv" + mk + "w9.A", "string(lv" + mk + "w9.b)", "ls" + mk + "w[0]", "li" + mk + "w", "lf" + mk + "wRet()", "lv" + mk + "w9.Meth()", "lcl" + mk + "w()", "lf" + mk + "wNosplit()",
				target, "lf" + mk + "wShadow()",
				"lf" + mk + "wArg(" + q(argLit) + ")", "lf" + mk + "wAny(" + q(anyLit) + ")", "lf" + mk + "wGen(" + q(genLit) + ")",
			} {
				fmt.Fprintf(&prov, "\temit(\"lit \" + %s)\n", e)
			}
			fmt.Fprintf(&prov, "\tfor k, v := range lm%sw {\n\t\temit(\"lit \" + k + \" \" + v)\n\t}\n", mk)
			fmt.Fprintf(&prov, "\ta, b := lf%swLocal()\n\temit(\"lit \" + a + \" \" + string(b))\n", mk)
			fmt.Fprintf(&prov, "\temit(\"lit \" + strconv.Itoa(lf%swSwitch(lf%swArg(%s))))\n}\n", mk, mk, q(p.Lits[len(p.Lits)-8].Text))
			fmt.Fprintf(&use, "@QLits%sw(emit)\n", mk)
			return prov.String(), use.String()
		},
	})
}
