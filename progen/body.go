package progen

// Function-body generator for C11 (control-flow obfuscation): typed,
// terminating, deterministic function bodies over ints, strings, slices, maps
// and channels, with an append-only trace as the observable side effect.

import (
	"fmt"
	"os"
	"strings"

	"pgregory.net/rapid"
)

// FuncSpec is one generated function.
type FuncSpec struct {
	Name      string          `json:"name"`
	Directive string          `json:"directive"` // parameters of //garble:controlflow ("" = none: function left plain)
	Body      string          `json:"body"`      // complete Go source of the function (without the directive line)
	Shapes    map[string]bool `json:"shapes"`    // statement kinds and special shapes present
	Calls     [][]string      `json:"calls"`     // argument tuples as Go expressions
	Kind      string          `json:"kind"`      // func | method | ptrmethod | generic
}

// BodyProgram is a complete C11 program.
type BodyProgram struct {
	Funcs []FuncSpec `json:"funcs"`
}

// BodyOptions steer the generator.
type BodyOptions struct {
	MinFuncs, MaxFuncs int
	// Avoid lists shapes not to generate (known findings).
	Avoid map[string]bool
}

type bodyGen struct {
	t      *rapid.T
	n      int             // draw label counter
	ints   []string        // readable int variables
	ro     map[string]bool // loop counters and guards: never assigned by generated statements
	strs   []string
	shapes map[string]bool
	depth  int
	loops  int
	labels int
	locals int
	avoid  map[string]bool
	prev   []string // names of previously generated plain-signature functions
	inLoop bool
	calls  int
	// loopVars are variables assigned inside the current loop nest (to keep
	// known-bad phi shapes out when asked to)
}

func (g *bodyGen) lbl(s string) string { g.n++; return fmt.Sprintf("%s%d", s, g.n) }
func (g *bodyGen) intn(lo, hi int, s string) int {
	return rapid.IntRange(lo, hi).Draw(g.t, g.lbl(s))
}
func (g *bodyGen) pick(xs []string, s string) string {
	return xs[g.intn(0, len(xs)-1, s)]
}

// pickW picks an int variable that may be assigned to.
func (g *bodyGen) pickW(s string) string {
	var ws []string
	for _, v := range g.ints {
		if !g.ro[v] {
			ws = append(ws, v)
		}
	}
	return g.pick(ws, s)
}

func (g *bodyGen) intExpr(d int) string {
	if d <= 0 {
		if g.intn(0, 2, "leaf") == 0 {
			return fmt.Sprint(g.intn(-3, 12, "lit"))
		}
		return g.pick(g.ints, "ivar")
	}
	switch g.intn(0, 9, "ie") {
	case 0:
		return fmt.Sprintf("(%s + %s)", g.intExpr(d-1), g.intExpr(d-1))
	case 1:
		return fmt.Sprintf("(%s - %s)", g.intExpr(d-1), g.intExpr(d-1))
	case 2:
		return fmt.Sprintf("(%s * %d)", g.intExpr(d-1), g.intn(2, 5, "mul"))
	case 3:
		return fmt.Sprintf("(%s %% %d)", g.intExpr(d-1), g.intn(2, 7, "mod"))
	case 4:
		return fmt.Sprintf("len(%s)", g.pick(g.strs, "svar"))
	case 5:
		return "len(xs)"
	case 6:
		return fmt.Sprintf("at(xs, %s)", g.intExpr(d-1))
	case 7:
		return fmt.Sprintf("(%s / %d)", g.intExpr(d-1), g.intn(2, 4, "div"))
	default:
		return g.intExpr(0)
	}
}

func (g *bodyGen) boolExpr(d int) string {
	switch g.intn(0, 7, "be") {
	case 0:
		return fmt.Sprintf("%s < %s", g.intExpr(1), g.intExpr(1))
	case 1:
		return fmt.Sprintf("%s == %s", g.intExpr(1), g.intExpr(0))
	case 2:
		return fmt.Sprintf("%s%%2 == 0", g.intExpr(1))
	case 3:
		if d > 0 {
			return fmt.Sprintf("(%s && %s)", g.boolExpr(d-1), g.boolExpr(d-1))
		}
		return fmt.Sprintf("%s > 0", g.intExpr(1))
	case 4:
		if d > 0 {
			return fmt.Sprintf("(%s || %s)", g.boolExpr(d-1), g.boolExpr(d-1))
		}
		return fmt.Sprintf("%s != 3", g.intExpr(1))
	case 5:
		return fmt.Sprintf("%s == %q", g.pick(g.strs, "svar"), g.pick([]string{"x", "hello", "", "ab"}, "slit"))
	case 6:
		return fmt.Sprintf("len(%s) > %d", g.pick(g.strs, "svar"), g.intn(0, 4, "k"))
	default:
		return fmt.Sprintf("!(%s >= %s)", g.intExpr(1), g.intExpr(0))
	}
}

func (g *bodyGen) strExpr(d int) string {
	switch g.intn(0, 5, "se") {
	case 0:
		return fmt.Sprintf("%q", g.pick([]string{"a", "xy", "", "lit", "Q"}, "slit"))
	case 1:
		return g.pick(g.strs, "svar")
	case 2:
		if d > 0 {
			return fmt.Sprintf("(%s + %s)", g.strExpr(d-1), g.strExpr(d-1))
		}
		return g.pick(g.strs, "svar")
	case 3:
		return fmt.Sprintf("itoa(%s)", g.intExpr(1))
	case 4:
		return fmt.Sprintf("head(%s, %d)", g.pick(g.strs, "svar"), g.intn(0, 3, "k"))
	default:
		return fmt.Sprintf("%q", "é"+g.pick([]string{"a", "b"}, "u"))
	}
}

func ind(n int) string { return strings.Repeat("\t", n) }

func (g *bodyGen) newInt(b *strings.Builder, lvl int) string {
	g.locals++
	name := fmt.Sprintf("v%d", g.locals)
	fmt.Fprintf(b, "%s%s := %s\n", ind(lvl), name, g.intExpr(1))
	fmt.Fprintf(b, "%s_ = %s\n", ind(lvl), name)
	return name
}

// block writes 1..n statements.
// PendingEnabled reports whether generator extensions that have not yet completed a run on the
// unchanged tree are switched on (VERIF_PENDING=1). The registered commands leave it unset.
func PendingEnabled() bool { return os.Getenv("VERIF_PENDING") == "1" }

func (g *bodyGen) block(b *strings.Builder, lvl, n int) {
	// locals declared in this block go out of scope at its end
	savedInts, savedStrs := len(g.ints), len(g.strs)
	for i := 0; i < n; i++ {
		g.stmt(b, lvl)
	}
	g.ints, g.strs = g.ints[:savedInts], g.strs[:savedStrs]
}

func (g *bodyGen) stmt(b *strings.Builder, lvl int) {
	deep := g.depth >= 3
	k := g.intn(0, 23, "st")
	if k >= 20 && k <= 21 && !PendingEnabled() {
		k = 22 // statement kinds not yet validated on the unchanged tree (DESIGN.md 10.10)
	}
	if deep && k >= 4 && k <= 14 {
		k = k % 4
	}
	g.depth++
	defer func() { g.depth-- }()
	in := ind(lvl)
	switch k {
	case 0: // assignment
		g.shapes["assign"] = true
		v := g.pickW("ivar")
		switch g.intn(0, 3, "op") {
		case 0:
			fmt.Fprintf(b, "%s%s = %s\n", in, v, g.intExpr(2))
		case 1:
			fmt.Fprintf(b, "%s%s += %s\n", in, v, g.intExpr(1))
		case 2:
			fmt.Fprintf(b, "%s%s++\n", in, v)
		default:
			fmt.Fprintf(b, "%s%s = %s\n", in, g.pick(g.strs, "svar"), g.strExpr(1))
		}
	case 1: // trace
		g.shapes["trace"] = true
		fmt.Fprintf(b, "%str(%q, %s)\n", in, fmt.Sprintf("t%d", g.intn(0, 99, "tag")), g.intExpr(1))
	case 2: // new local
		name := g.newInt(b, lvl)
		g.ints = append(g.ints, name)
	case 3: // string trace
		fmt.Fprintf(b, "%strs(%s)\n", in, g.strExpr(1))
	case 4: // if / else
		g.shapes["if"] = true
		fmt.Fprintf(b, "%sif %s {\n", in, g.boolExpr(1))
		g.block(b, lvl+1, g.intn(1, 3, "n"))
		switch g.intn(0, 2, "else") {
		case 1:
			fmt.Fprintf(b, "%s} else {\n", in)
			g.block(b, lvl+1, g.intn(1, 2, "n"))
		case 2:
			fmt.Fprintf(b, "%s} else if %s {\n", in, g.boolExpr(0))
			g.block(b, lvl+1, g.intn(1, 2, "n"))
			fmt.Fprintf(b, "%s} else {\n", in)
			g.block(b, lvl+1, 1)
		}
		fmt.Fprintf(b, "%s}\n", in)
	case 5: // three-clause for
		if g.loops >= 3 {
			return
		}
		g.shapes["for3"] = true
		g.loops++
		g.locals++
		iv := fmt.Sprintf("i%d", g.locals)
		fmt.Fprintf(b, "%sfor %s := 0; %s < %d; %s++ {\n", in, iv, iv, g.intn(1, 5, "bound"), iv)
		g.ro[iv] = true
		g.ints = append(g.ints, iv)
		g.loopBody(b, lvl+1, "")
		g.ints = g.ints[:len(g.ints)-1]
		fmt.Fprintf(b, "%s}\n", in)
		g.loops--
	case 6: // condition loop with a guard counter
		if g.loops >= 3 {
			return
		}
		g.shapes["forcond"] = true
		g.loops++
		g.locals++
		gv := fmt.Sprintf("g%d", g.locals)
		g.ro[gv] = true
		fmt.Fprintf(b, "%s%s := 0\n", in, gv)
		fmt.Fprintf(b, "%sfor %s && %s < %d {\n", in, g.boolExpr(0), gv, g.intn(1, 6, "bound"))
		fmt.Fprintf(b, "%s\t%s++\n", in, gv)
		g.loopBody(b, lvl+1, "")
		fmt.Fprintf(b, "%s}\n", in)
		g.loops--
	case 7: // range
		if g.loops >= 3 {
			return
		}
		g.loops++
		g.locals++
		kv, vv := fmt.Sprintf("k%d", g.locals), fmt.Sprintf("e%d", g.locals)
		switch g.intn(0, 5, "rk") {
		case 0:
			g.shapes["range-slice"] = true
			fmt.Fprintf(b, "%sfor %s, %s := range xs {\n%s\t_, _ = %s, %s\n", in, kv, vv, in, kv, vv)
			g.ints = append(g.ints, kv, vv)
			g.loopBody(b, lvl+1, "")
			g.ints = g.ints[:len(g.ints)-2]
		case 1:
			src := g.pick(g.strs, "svar")
			if g.avoid["range-string-nonascii"] {
				g.shapes["range-string-ascii"] = true
				// only the rune value is used on ASCII-only data: index == byte offset
				fmt.Fprintf(b, "%sfor %s, %s := range ascii(%s) {\n", in, kv, vv, src)
			} else {
				g.shapes["range-string"] = true
				fmt.Fprintf(b, "%sfor %s, %s := range %s + \"é!\" {\n", in, kv, vv, src)
			}
			fmt.Fprintf(b, "%s\ttr(\"rs\", %s*1000+int(%s))\n", in, kv, vv)
			g.ints = append(g.ints, kv)
			g.loopBody(b, lvl+1, "")
			g.ints = g.ints[:len(g.ints)-1]
		case 2:
			g.shapes["range-int"] = true
			fmt.Fprintf(b, "%sfor %s := range %d {\n%s\t_ = %s\n", in, kv, g.intn(1, 4, "n"), in, kv)
			g.ints = append(g.ints, kv)
			g.loopBody(b, lvl+1, "")
			g.ints = g.ints[:len(g.ints)-1]
		case 3:
			g.shapes["range-map"] = true
			// order-insensitive use only
			fmt.Fprintf(b, "%sfor %s, %s := range mp {\n%s\tmsum += len(%s)*%s\n%s}\n", in, kv, vv, in, kv, vv, in)
			fmt.Fprintf(b, "%str(\"msum\", msum)\n", in)
			g.loops--
			return
		case 4:
			g.shapes["range-chan"] = true
			fmt.Fprintf(b, "%sfor %s := range mkchan(%s) {\n%s\t_ = %s\n", in, vv, g.intExpr(0), in, vv)
			g.ints = append(g.ints, vv)
			g.loopBody(b, lvl+1, "")
			g.ints = g.ints[:len(g.ints)-1]
		default:
			g.shapes["range-slice-idx"] = true
			fmt.Fprintf(b, "%sfor %s := range xs {\n%s\t_ = %s\n", in, kv, in, kv)
			g.ints = append(g.ints, kv)
			g.loopBody(b, lvl+1, "")
			g.ints = g.ints[:len(g.ints)-1]
		}
		fmt.Fprintf(b, "%s}\n", in)
		g.loops--
	case 8: // switch
		g.shapes["switch"] = true
		fmt.Fprintf(b, "%sswitch %s %% 4 {\n", in, g.intExpr(1))
		fmt.Fprintf(b, "%scase 0:\n", in)
		g.block(b, lvl+1, 1)
		if g.intn(0, 1, "ft") == 1 {
			g.shapes["fallthrough"] = true
			fmt.Fprintf(b, "%s\tfallthrough\n", in)
		}
		fmt.Fprintf(b, "%scase 1, -1:\n", in)
		g.block(b, lvl+1, g.intn(1, 2, "n"))
		if g.intn(0, 1, "def") == 1 {
			fmt.Fprintf(b, "%sdefault:\n", in)
			g.block(b, lvl+1, 1)
		}
		fmt.Fprintf(b, "%s}\n", in)
	case 9: // labelled nested loop
		if g.loops >= 2 {
			return
		}
		g.shapes["labels"] = true
		g.loops += 2
		g.labels++
		g.locals++
		L := fmt.Sprintf("L%d", g.labels)
		i1, i2 := fmt.Sprintf("i%d", g.locals), fmt.Sprintf("j%d", g.locals)
		fmt.Fprintf(b, "%s%s:\n%sfor %s := 0; %s < %d; %s++ {\n", in, L, in, i1, i1, g.intn(2, 4, "b1"), i1)
		fmt.Fprintf(b, "%s\tfor %s := 0; %s < %d; %s++ {\n", in, i2, i2, g.intn(2, 4, "b2"), i2)
		g.ro[i1], g.ro[i2] = true, true
		g.ints = append(g.ints, i1, i2)
		fmt.Fprintf(b, "%s\t\tif %s {\n%s\t\t\tcontinue %s\n%s\t\t}\n", in, g.boolExpr(0), in, L, in)
		fmt.Fprintf(b, "%s\t\tif %s {\n%s\t\t\tbreak %s\n%s\t\t}\n", in, g.boolExpr(0), in, L, in)
		g.block(b, lvl+2, g.intn(1, 2, "n"))
		g.ints = g.ints[:len(g.ints)-2]
		fmt.Fprintf(b, "%s\t}\n%s}\n", in, in)
		g.loops -= 2
	case 10: // closure capturing and mutating a variable
		g.shapes["closure"] = true
		g.locals++
		fn := fmt.Sprintf("cl%d", g.locals)
		v := g.pickW("ivar")
		fmt.Fprintf(b, "%s%s := func(d int) int {\n%s\t%s += d\n%s\treturn %s * 2\n%s}\n", in, fn, in, v, in, v, in)
		fmt.Fprintf(b, "%str(\"cl\", %s(%s)+%s(1))\n", in, fn, g.intExpr(1), fn)
	case 11: // conditional panic
		g.shapes["panic"] = true
		fmt.Fprintf(b, "%sif %s {\n%s\tpanic(\"p\" + itoa(%s))\n%s}\n", in, g.boolExpr(0), in, g.intExpr(1), in)
	case 12: // select with default
		g.shapes["select"] = true
		fmt.Fprintf(b, "%sselect {\n%scase x := <-mkchan(%s):\n%s\ttr(\"sel\", x)\n%sdefault:\n%s\ttr(\"seld\", 0)\n%s}\n", in, in, g.intExpr(0), in, in, in, in)
	case 13: // forward goto
		if g.inLoop {
			return
		}
		g.shapes["goto"] = true
		g.labels++
		L := fmt.Sprintf("G%d", g.labels)
		fmt.Fprintf(b, "%sif %s {\n%s\tgoto %s\n%s}\n", in, g.boolExpr(0), in, L, in)
		fmt.Fprintf(b, "%str(\"nogoto\", %s)\n", in, g.intExpr(0))
		fmt.Fprintf(b, "%s%s:\n%str(\"after\", %s)\n", in, L, in, g.intExpr(0))
	case 14: // call an earlier function
		if len(g.prev) == 0 || g.inLoop || g.loops > 0 || g.calls >= 2 {
			return
		}
		g.calls++
		g.shapes["call"] = true
		f := g.pick(g.prev, "callee")
		v := g.pickW("ivar")
		sv := g.pick(g.strs, "svar")
		fmt.Fprintf(b, "%s%s, %s = %s(%s%%7, %s%%5, %s, xs)\n", in, v, sv, f, g.intExpr(1), g.intExpr(0), g.strExpr(0))
	case 15: // early return
		g.shapes["early-return"] = true
		fmt.Fprintf(b, "%sif %s {\n%s\treturn %s, %s\n%s}\n", in, g.boolExpr(1), in, g.intExpr(1), g.strExpr(1), in)
	case 16: // parallel assignment
		if len(g.ints) < 2 {
			return
		}
		x, y := g.pickW("ivar"), g.pickW("ivar")
		if x == y {
			return
		}
		if g.avoid["phi-swap"] {
			g.shapes["parallel-assign-fresh"] = true
			fmt.Fprintf(b, "%s%s, %s = %s, %s\n", in, x, y, g.intExpr(0)+"+1", g.intExpr(0)+"*2")
			return
		}
		g.shapes["swap"] = true
		fmt.Fprintf(b, "%s%s, %s = %s, %s\n", in, x, y, y, x)
	case 17: // defer with trace
		g.shapes["defer"] = true
		fmt.Fprintf(b, "%sdefer tr(\"defer\", %s)\n", in, g.intExpr(0))
	case 18: // slice element update through a helper (side effect on the caller's slice)
		g.shapes["slice-write"] = true
		fmt.Fprintf(b, "%sset(xs, %s, %s)\n", in, g.intExpr(1), g.intExpr(1))
	case 19: // struct value and method call
		g.shapes["struct"] = true
		g.locals++
		v := fmt.Sprintf("p%d", g.locals)
		fmt.Fprintf(b, "%s%s := pair{%s, %s}\n%s%s.bump(%s)\n%str(\"pair\", %s.sum())\n", in, v, g.intExpr(0), g.intExpr(0), in, v, g.intExpr(0), in, v)
	case 20: // nil values of various types: typed nil in an interface, nil slice / map / func, through conversions
		g.shapes["nil-values"] = true
		g.locals++
		n := g.locals
		switch g.intn(0, 5, "nilkind") {
		case 0: // a typed nil pointer stored in an interface is not a nil interface
			fmt.Fprintf(b, "%svar e%d error = (*perr)(nil)\n%sif e%d != nil {\n%s\ttrs(\"typed-nil \" + e%d.Error())\n%s} else {\n%s\ttr(\"nil-iface\", %s)\n%s}\n", in, n, in, n, in, n, in, in, g.intExpr(0), in)
		case 1: // the same through a conversion of a nil constant to a named pointer type
			fmt.Fprintf(b, "%svar a%d any = perrp(nil)\n%sif a%d == nil {\n%s\ttr(\"any-nil\", 1)\n%s} else if p, ok := a%d.(perrp); ok && p == nil {\n%s\ttr(\"any-typed-nil\", %s)\n%s}\n", in, n, in, n, in, in, n, in, g.intExpr(0), in)
		case 2: // nil slice of a named type: length, append, comparison
			fmt.Fprintf(b, "%sys%d := intlist(nil)\n%sif ys%d == nil {\n%s\tys%d = append(ys%d, %s)\n%s}\n%str(\"intlist\", len(ys%d)+ys%d.total())\n", in, n, in, n, in, n, n, g.intExpr(1), in, in, n, n)
		case 3: // nil func value and nil map
			fmt.Fprintf(b, "%sfn%d := (func(int) int)(nil)\n%sif %s {\n%s\tfn%d = func(v int) int { return v + %d }\n%s}\n%sif fn%d != nil {\n%s\ttr(\"fn\", fn%d(%s))\n%s} else {\n%s\ttr(\"fn-nil\", len(map[string]int(nil)))\n%s}\n", in, n, in, g.boolExpr(0), in, n, g.intn(1, 9, "add"), in, in, n, in, n, g.intExpr(0), in, in, in)
		case 4: // an interface holding nil returned from a helper and compared
			fmt.Fprintf(b, "%sif err%d := mayFail(%s); err%d != nil {\n%s\ttrs(\"failed \" + err%d.Error())\n%s} else {\n%s\ttr(\"ok\", %s)\n%s}\n", in, n, g.intExpr(1), n, in, n, in, in, g.intExpr(0), in)
		default: // nil error assigned conditionally, then inspected with a type switch
			fmt.Fprintf(b, "%svar ev%d error\n%sif %s {\n%s\tev%d = (*perr)(nil)\n%s}\n%sswitch v := ev%d.(type) {\n%scase nil:\n%s\ttr(\"sw-nil\", 0)\n%scase *perr:\n%s\ttrs(\"sw-perr \" + v.Error())\n%s}\n", in, n, in, g.boolExpr(0), in, n, in, in, n, in, in, in, in, in)
		}
	case 21: // conversions between named and unnamed types
		g.shapes["conversions"] = true
		g.locals++
		n := g.locals
		switch g.intn(0, 3, "convkind") {
		case 0:
			fmt.Fprintf(b, "%sc%d, w%d := celsius(%s), %s\n%str(\"conv\", int(c%d.double())+int(int8(w%d)))\n", in, n, n, g.intExpr(1), g.intExpr(1), in, n, n)
		case 1:
			fmt.Fprintf(b, "%sbs%d := []byte(%s)\n%sif len(bs%d) > 0 {\n%s\tbs%d[0] ^= 1\n%s}\n%strs(ascii(string(bs%d)))\n", in, n, g.strExpr(1), in, n, in, n, in, in, n)
		case 2:
			fmt.Fprintf(b, "%sil%d := intlist(xs)\n%str(\"conv-total\", il%d.total())\n%sw%d, fl%d := %s, float64(%s)\n%sua%d := uint8(w%d)\n%str(\"conv-u8\", int(ua%d)+int(fl%d*1.5))\n", in, n, in, n, in, n, n, g.intExpr(1), g.intExpr(0), in, n, n, in, n, n)
		default:
			fmt.Fprintf(b, "%svar st%d interface{ Error() string } = &perr{code: %s}\n%svar er%d error = st%d\n%strs(er%d.Error())\n", in, n, g.intExpr(0), in, n, n, in, n)
		}
	default:
		fmt.Fprintf(b, "%str(%q, %s)\n", in, "d", g.intExpr(2))
	}
}

func (g *bodyGen) loopBody(b *strings.Builder, lvl int, label string) {
	saved := g.inLoop
	g.inLoop = true
	n := g.intn(1, 3, "n")
	g.block(b, lvl, n)
	if g.intn(0, 3, "brk") == 0 {
		g.shapes["break"] = true
		fmt.Fprintf(b, "%sif %s {\n%s\tbreak\n%s}\n", ind(lvl), g.boolExpr(0), ind(lvl), ind(lvl))
	}
	if g.intn(0, 3, "cont") == 0 {
		g.shapes["continue"] = true
		fmt.Fprintf(b, "%sif %s {\n%s\tcontinue\n%s}\n", ind(lvl), g.boolExpr(0), ind(lvl), ind(lvl))
		fmt.Fprintf(b, "%str(\"ac\", %s)\n", ind(lvl), g.intExpr(0))
	}
	g.inLoop = saved
}

// DrawBodyProgram draws a whole program.
func DrawBodyProgram(t *rapid.T, o BodyOptions) BodyProgram {
	if o.MaxFuncs == 0 {
		o.MinFuncs, o.MaxFuncs = 4, 8
	}
	var p BodyProgram
	nf := rapid.IntRange(o.MinFuncs, o.MaxFuncs).Draw(t, "nfuncs")
	var prev []string
	for fi := 0; fi < nf; fi++ {
		g := &bodyGen{t: t, n: fi * 10000, ints: []string{"a", "b"}, ro: map[string]bool{}, strs: []string{"s"}, shapes: map[string]bool{}, avoid: o.Avoid, prev: prev}
		name := fmt.Sprintf("fzq%d", fi)
		kind := rapid.SampledFrom([]string{"func", "func", "func", "method", "ptrmethod", "generic", "recover"}).Draw(t, g.lbl("kind"))
		if kind == "recover" && o.Avoid["defer-named-result"] {
			kind = "recover-unnamed"
		}
		var b strings.Builder
		var sig, callPrefix string
		switch kind {
		case "method":
			sig = fmt.Sprintf("func (rc recv) %s(a, b int, s string, xs []int) (int, string) {\n\ta += rc.base\n", name)
			callPrefix = "recv{base: 2}."
		case "ptrmethod":
			sig = fmt.Sprintf("func (rc *recv) %s(a, b int, s string, xs []int) (int, string) {\n\trc.base++\n\ta += rc.base\n", name)
			callPrefix = "(&recv{base: 5})."
		case "generic":
			sig = fmt.Sprintf("func %s[T ~int](a0 T, b int, s string, xs []int) (int, string) {\n\ta := int(a0)\n\t_ = a\n", name)
		case "recover":
			// named results set by a recovering deferred closure
			sig = fmt.Sprintf("func %s(a, b int, s string, xs []int) (r int, rs string) {\n\tdefer func() {\n\t\tif e := recover(); e != nil {\n\t\t\tr, rs = -1, \"recovered\"\n\t\t}\n\t}()\n", name)
			g.shapes["defer-named-result"] = true
		case "recover-unnamed":
			sig = fmt.Sprintf("func %s(a, b int, s string, xs []int) (int, string) {\n\tdefer func() {\n\t\tif e := recover(); e != nil {\n\t\t\ttrs(\"recovered\")\n\t\t}\n\t}()\n", name)
			g.shapes["defer-recover"] = true
		default:
			sig = fmt.Sprintf("func %s(a, b int, s string, xs []int) (int, string) {\n", name)
		}
		b.WriteString(sig)
		b.WriteString("\tmsum := 0\n\t_ = msum\n")
		g.block(&b, 1, g.intn(3, 7, "nstmts"))
		fmt.Fprintf(&b, "\treturn %s, %s\n}\n", g.intExpr(2), g.strExpr(1))
		fs := FuncSpec{Name: name, Body: b.String(), Shapes: g.shapes, Kind: kind}
		// directive parameters
		fp := rapid.SampledFrom([]string{"1", "1", "1", "2", "2", "3", "0"}).Draw(t, g.lbl("fp"))
		jj := rapid.SampledFrom([]string{"0", "0", "1", "5", "64", "max"}).Draw(t, g.lbl("jj"))
		bs := rapid.SampledFrom([]string{"0", "0", "1", "3", "10", "max"}).Draw(t, g.lbl("bs"))
		hard := rapid.SampledFrom([]string{"", "", "xor", "delegate_table", "xor,delegate_table"}).Draw(t, g.lbl("hard"))
		trash := rapid.SampledFrom([]string{"0", "0", "0", "0", "0", "0", "0", "1", "8", "32"}).Draw(t, g.lbl("trash"))
		// flattening has exponential cost: keep multi-pass functions small in the other dimensions
		if fp == "3" {
			if jj != "0" {
				jj = "1"
			}
			if bs != "0" {
				bs = "1"
			}
			if trash != "0" {
				trash = "1"
			}
		} else if fp == "2" {
			if jj == "64" || jj == "max" {
				jj = "5"
			}
			if bs == "max" {
				bs = "10"
			}
			if trash == "32" {
				trash = "8"
			}
		}
		if o.Avoid["trash-with-splits"] && trash != "0" && bs != "0" {
			if rapid.Bool().Draw(t, g.lbl("keep")) {
				trash = "0"
			} else {
				bs = "0"
			}
			fs.Shapes["excluded:trash-with-splits"] = true
		}
		fs.Directive = fmt.Sprintf("flatten_passes=%s junk_jumps=%s block_splits=%s trash_blocks=%s", fp, jj, bs, trash)
		if hard != "" {
			fs.Directive += " flatten_hardening=" + hard
		}
		for _, tag := range []struct {
			on   bool
			name string
		}{{jj != "0", "junk"}, {bs != "0", "splits"}, {trash != "0", "trash"}, {hard != "", "hardening"}, {fp == "0", "noflatten"}, {fp == "2" || fp == "3", "multipass"}} {
			if tag.on {
				fs.Shapes["param:"+tag.name] = true
			}
		}
		// call argument tuples
		nc := rapid.IntRange(3, 6).Draw(t, g.lbl("ncalls"))
		for c := 0; c < nc; c++ {
			a := rapid.IntRange(-3, 9).Draw(t, g.lbl("argA"))
			bb := rapid.IntRange(-2, 7).Draw(t, g.lbl("argB"))
			s := rapid.SampledFrom([]string{`""`, `"x"`, `"hello"`, `"ab"`, `"héllo"`, `"zzzzzz"`}).Draw(t, g.lbl("argS"))
			if o.Avoid["range-string-nonascii"] && s == `"héllo"` {
				s = `"hallo"`
			}
			xs := rapid.SampledFrom([]string{"nil", "[]int{}", "[]int{4}", "[]int{1, 2, 3}", "[]int{-1, 0, 5, 7, 9}"}).Draw(t, g.lbl("argXS"))
			av := fmt.Sprint(a)
			fs.Calls = append(fs.Calls, []string{av, fmt.Sprint(bb), s, xs, callPrefix})
		}
		p.Funcs = append(p.Funcs, fs)
		if kind == "func" || kind == "recover" || kind == "recover-unnamed" {
			prev = append(prev, name)
		}
	}
	return p
}

const bodyPrelude = `package main

import (
	"os"
	"strconv"
	"strings"

	// Every non-internal package this program depends on is imported
	// directly. The trash-block generator picks functions from all packages
	// of the program; direct imports are always resolvable by the compiler,
	// also when the packages come from the build cache.
	_ "cmp"
	_ "errors"
	_ "io"
	_ "io/fs"
	_ "iter"
	_ "math/bits"
	_ "path"
	_ "slices"
	_ "sync"
	_ "sync/atomic"
	_ "syscall"
	_ "time"
	_ "unicode"
	_ "unicode/utf8"
)

var (
	_ = os.Exit
	_ = strings.ToUpper
)

var trace []string

func tr(tag string, v int) { trace = append(trace, tag+":"+strconv.Itoa(v)) }
func trs(s string)         { trace = append(trace, "s:"+s) }
func itoa(n int) string    { return strconv.Itoa(n) }

func at(xs []int, i int) int {
	if len(xs) == 0 {
		return 0
	}
	if i < 0 {
		i = -i
	}
	return xs[i%len(xs)]
}

func set(xs []int, i, v int) {
	if len(xs) == 0 {
		return
	}
	if i < 0 {
		i = -i
	}
	xs[i%len(xs)] = v
}

func head(s string, n int) string {
	if n > len(s) {
		n = len(s)
	}
	return s[:n]
}

// ascii keeps only the ASCII bytes of s.
func ascii(s string) string {
	var b []byte
	for i := 0; i < len(s); i++ {
		if s[i] < 0x80 {
			b = append(b, s[i])
		}
	}
	return string(b)
}

func mkchan(n int) chan int {
	if n < 0 {
		n = -n
	}
	n %= 4
	ch := make(chan int, 4)
	for i := 0; i < n; i++ {
		ch <- i*3 + 1
	}
	close(ch)
	return ch
}

var mp = map[string]int{"a": 1, "bb": 2, "ccc": 3}

type recv struct{ base int }

type pair struct{ x, y int }

type perr struct{ code int }

func (p *perr) Error() string {
	if p == nil {
		return "nil-perr"
	}
	return "perr" + strconv.Itoa(p.code)
}

type perrp *perr

type intlist []int

func (l intlist) total() int {
	t := 0
	for _, v := range l {
		t += v
	}
	return t
}

type celsius int

func (c celsius) double() celsius { return c * 2 }

func mayFail(n int) error {
	if n%3 == 0 {
		return nil
	}
	if n%3 == 1 {
		return (*perr)(nil)
	}
	return &perr{code: n}
}

func (p *pair) bump(d int) { p.x += d; p.y -= d }
func (p pair) sum() int    { return p.x*3 + p.y }

func run(name string, f func() (int, string)) {
	trace = trace[:0]
	defer func() {
		if e := recover(); e != nil {
			msg := "?"
			switch v := e.(type) {
			case string:
				msg = v
			case error:
				msg = "runtime error"
			}
			os.Stdout.WriteString(name + " PANIC " + msg + " | " + strings.Join(trace, " ") + "\n")
		}
	}()
	r, s := f()
	os.Stdout.WriteString(name + " = " + strconv.Itoa(r) + " " + strconv.Quote(s) + " | " + strings.Join(trace, " ") + "\n")
}
`

// RenderBody renders the program. only >= 0 keeps the directive on that
// function alone (used to isolate a rejected function).
func RenderBody(p BodyProgram, only int) map[string]string {
	var b strings.Builder
	b.WriteString(bodyPrelude)
	for i, f := range p.Funcs {
		b.WriteString("\n")
		if f.Directive != "" && (only < 0 || only == i) {
			b.WriteString("//garble:controlflow " + f.Directive + "\n")
		}
		b.WriteString(f.Body)
	}
	b.WriteString("\nfunc main() {\n")
	for _, f := range p.Funcs {
		for ci, c := range f.Calls {
			call := fmt.Sprintf("%s%s(%s, %s, %s, %s)", c[4], f.Name, c[0], c[1], c[2], c[3])
			fmt.Fprintf(&b, "\trun(%q, func() (int, string) { return %s })\n", fmt.Sprintf("%s#%d", f.Name, ci), call)
		}
	}
	b.WriteString("}\n")
	return map[string]string{"go.mod": "module zqsimple/cfprog\n\ngo 1.26\n", "main.go": b.String()}
}
