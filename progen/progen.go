// Package progen generates well-typed, deterministic multi-package Go
// programs from a small specification drawn with rapid. Programs never print
// identifier names, positions or build metadata, so their output must be the
// same under garble and under the regular toolchain.
package progen

import (
	"fmt"
	"sort"
	"strings"

	"pgregory.net/rapid"
)

// Spec is the drawn description of a program. It is JSON-serialisable: a
// replay re-renders exactly the same module from it.
type Spec struct {
	ModPath string     `json:"mod_path"`
	Pkgs    []PkgSpec  `json:"pkgs"` // Pkgs[0] is main; package i may import package j only when j > i
	Feats   []Feat     `json:"feats"`
	Args    [][]string `json:"args"` // runtime argument vectors
	Exit    bool       `json:"exit"` // program ends with os.Exit(code derived from args)
}

// PkgSpec is one package of the module.
type PkgSpec struct {
	Dir  string `json:"dir"`  // directory relative to the module root ("" for main)
	Name string `json:"name"` // package name
}

// Feat is one instantiated feature: declarations in a provider package and
// code using them in a user package.
type Feat struct {
	Kind string `json:"kind"`
	Prov int    `json:"prov"`
	User int    `json:"user"`
	Imp  string `json:"imp"` // plain | named | dot
	P    []int  `json:"p"`   // feature parameters
}

// NameInfo describes one generated identifier-like name.
type NameInfo struct {
	Name     string `json:"name"`
	Kind     string `json:"kind"` // type, func, var, const, field, method, iface, pkg, file, dir, label, param
	Exported bool   `json:"exported"`
	Pkg      int    `json:"pkg"`
	Feat     string `json:"feat"`
	// MayRemain is set for names the documentation allows to survive
	// obfuscation (exported methods, interface methods that are exported...).
	MayRemain bool `json:"may_remain"`
}

// Program is a rendered module.
type Program struct {
	Spec     Spec
	Files    map[string]string
	Names    []NameInfo
	Features map[string]bool // feature kinds and derived tags present
	MainDir  string
	LdFlags  string // value for -ldflags (from ldflags features), "" if none
	// LdValuesUsed are the injected -X values.
	LdValuesUsed []string
	// Lits are the marker literals of "literals" features (C09).
	Lits   []LitInfo
	curPkg int
	// ExtraLd are -X flags contributed by generated (gen) features.
	ExtraLd        []string
	pendingUseDecl string
}

// LitInfo describes one marker literal.
type LitInfo struct {
	Text   string `json:"text"`
	Len    int    `json:"len"`
	Form   string `json:"form"`   // string | bytes | array | concat
	Ctx    string `json:"ctx"`    // syntactic position
	Exempt string `json:"exempt"` // "" or the documented reason it may stay
	Pkg    int    `json:"pkg"`
}

// Options steer Draw.
type Options struct {
	MinPkgs, MaxPkgs   int
	MinFeats, MaxFeats int
	Kinds              []string // allowed feature kinds (nil = all default kinds)
	Exclude            map[string]bool
	NoExit             bool
}

// Draw draws a Spec.
func Draw(t *rapid.T, o Options) Spec {
	if o.MaxPkgs == 0 {
		o.MinPkgs, o.MaxPkgs = 1, 5
	}
	if o.MaxFeats == 0 {
		o.MinFeats, o.MaxFeats = 2, 8
	}
	kinds := o.Kinds
	if kinds == nil {
		kinds = DefaultKinds()
	}
	var allowed []string
	for _, k := range kinds {
		if !o.Exclude[k] {
			allowed = append(allowed, k)
		}
	}
	var s Spec
	s.ModPath = rapid.SampledFrom([]string{
		"example.com/zqmod", "zqmod.test/a-b/v2", "zq.example.org/x.y/mod", "zqsimple", "example.com/zq_mod/go.pkg",
	}).Draw(t, "modpath")
	n := rapid.IntRange(o.MinPkgs, o.MaxPkgs).Draw(t, "npkgs")
	s.Pkgs = append(s.Pkgs, PkgSpec{Dir: "", Name: "main"})
	specialUsed := false
	for i := 1; i < n; i++ {
		style := rapid.IntRange(0, 4).Draw(t, fmt.Sprintf("pkgstyle%d", i))
		name := fmt.Sprintf("pkzq%dw", i)
		dir := name
		if style == 4 && (specialUsed || usesStdReflect(kinds)) {
			style = 0
		}
		switch style {
		case 4:
			// a user package named like a special std package
			specialUsed = true
			name = rapid.SampledFrom([]string{"embed", "runtime", "reflect"}).Draw(t, fmt.Sprintf("special%d", i))
			dir = fmt.Sprintf("internal/zq%dw/%s", i, name)
		case 1:
			dir = fmt.Sprintf("internal/%s", name)
		case 2:
			dir = fmt.Sprintf("sub.zq%d/%s", i, name)
		case 3:
			// directory name differs from the package name
			dir = fmt.Sprintf("dirzq%dw-x", i)
		}
		s.Pkgs = append(s.Pkgs, PkgSpec{Dir: dir, Name: name})
	}
	nf := rapid.IntRange(o.MinFeats, o.MaxFeats).Draw(t, "nfeats")
	for i := 0; i < nf; i++ {
		kind := rapid.SampledFrom(allowed).Draw(t, fmt.Sprintf("kind%d", i))
		if n == 1 && catalogue[kind].needs2 {
			kind = "closure"
		}
		f := Feat{Kind: kind}
		def := catalogue[kind]
		// provider: prefer a non-main package when there is one
		f.Prov = rapid.IntRange(0, n-1).Draw(t, fmt.Sprintf("prov%d", i))
		if def.provNotMain && f.Prov == 0 && n > 1 {
			f.Prov = rapid.IntRange(1, n-1).Draw(t, fmt.Sprintf("prov%db", i))
		}
		f.User = rapid.IntRange(0, f.Prov).Draw(t, fmt.Sprintf("user%d", i))
		if def.samePkg {
			f.User = f.Prov
		}
		if def.provNotMain && n == 1 {
			f.User, f.Prov = 0, 0
		}
		if def.crossOnly && f.User == f.Prov {
			if f.Prov == 0 {
				f.Prov = 1
			}
			f.User = rapid.IntRange(0, f.Prov-1).Draw(t, fmt.Sprintf("user%db", i))
		}
		f.Imp = rapid.SampledFrom([]string{"plain", "plain", "named", "dot"}).Draw(t, fmt.Sprintf("imp%d", i))
		for j := 0; j < 4; j++ {
			f.P = append(f.P, rapid.IntRange(0, 9).Draw(t, fmt.Sprintf("p%d_%d", i, j)))
		}
		s.Feats = append(s.Feats, f)
	}
	nargs := rapid.IntRange(1, 3).Draw(t, "nargvecs")
	for i := 0; i < nargs; i++ {
		vec := rapid.SliceOfN(rapid.SampledFrom([]string{"0", "1", "2", "7", "13", "-4", "x", "hello", "", "wörld", "255"}), 0, 3).Draw(t, fmt.Sprintf("args%d", i))
		s.Args = append(s.Args, vec)
	}
	if !o.NoExit {
		s.Exit = rapid.Bool().Draw(t, "exit")
	}
	return s
}

func usesStdReflect(kinds []string) bool {
	for _, k := range kinds {
		if k == "reflect" {
			return true
		}
	}
	return false
}

// ---------------------------------------------------------------------------

type featDef struct {
	// prov is the provider-side declarations, use the body of the use
	// function. Tokens: @Q qualifier, @T1.. names, @P0..@P3 parameters.
	prov, use string
	// useDecl holds package-level declarations placed in the user's file.
	useDecl string
	// sinks / useSinks are expression lists boxed into a package-level []any
	// in the provider / user file and referenced from live code, so that the
	// types' names and field names are present in the regular binary (an
	// interface conversion, not a reflection API).
	sinks, useSinks string
	// provImports/useImports list std imports needed beyond the common set.
	provImports, useImports []string
	provNotMain             bool // provider should not be main when avoidable (needs exported API use)
	samePkg                 bool // provider and user must be the same package
	tags                    []string
	// extra files for the provider package (name → content), tokens allowed.
	extraProv map[string]string
	// mayRemain lists name tokens (e.g. "M1") the docs allow to survive.
	mayRemain []string
	// needs marks toolchain needs: "asm", "linkname", "ldflags", "test".
	needs []string
	// gen, when set, produces the provider and use templates dynamically.
	gen func(fi int, f Feat, p *Program) (prov, use string)
	// ldX lists provider variable tokens (e.g. "V1") set through -ldflags=-X.
	ldX []string
	// noDashPath: the feature references the provider by its full path from
	// assembly, which cannot spell paths containing '-'.
	testMain bool
	needs2   bool // needs at least two packages (provider must not be main)
	// reflects: the feature passes its own types to fmt (reflection), so its
	// names may legitimately survive obfuscation.
	reflects bool
	// crossOnly: provider and user must be different packages.
	crossOnly bool
}

// CrossOnly reports whether a kind needs distinct provider and user packages.
func CrossOnly(kind string) bool { return catalogue[kind].crossOnly }

// LdValues are the values injected with -ldflags=-X, indexed by parameters.
var LdValues = []string{"v1.2.3", "with spaces in it", "", "k=v==", "日本語", "a=b c=d", "c2VjcmV0LWtleS0wMQ==", "http://h/p?q=1&r=2", "-dash", "x"}

var catalogue = map[string]featDef{}

func register(kind string, d featDef) { catalogue[kind] = d }

// DefaultKinds lists the feature kinds usable in every check (no special
// build flags, no assembly, no tests).
func DefaultKinds() []string {
	var ks []string
	for k, d := range catalogue {
		if len(d.needs) == 0 {
			ks = append(ks, k)
		}
	}
	sort.Strings(ks)
	return ks
}

// AllKinds lists every registered kind.
func AllKinds() []string {
	var ks []string
	for k := range catalogue {
		ks = append(ks, k)
	}
	sort.Strings(ks)
	return ks
}

// KindsNeeding lists kinds with the given need.
func KindsNeeding(need string) []string {
	var ks []string
	for k, d := range catalogue {
		for _, n := range d.needs {
			if n == need {
				ks = append(ks, k)
			}
		}
	}
	sort.Strings(ks)
	return ks
}

const commonImportBlock = `import (
	"errors"
	"fmt"
	"os"
	"sort"
	"strconv"
	"strings"
)
`

// header renders the top of a generated file.
func header(pkg, extraImports string) string {
	return "package " + pkg + "\n\n" + commonImportBlock + extraImports + commonVarBlock
}

const commonVarBlock = `
var (
	_ = errors.New
	_ = fmt.Sprint
	_ = os.Exit
	_ = sort.Ints
	_ = strconv.Itoa
	_ = strings.ToUpper
)
`

// marker builds the unique core of all names of feature i.
func marker(i int) string { return fmt.Sprintf("Zq%dx", i) }

var namePrefix = map[byte][2]string{
	// token letter → prefix, kind
	'T': {"Ty", "type"}, 't': {"ty", "type"},
	'F': {"Fd", "field"}, 'f': {"fd", "field"},
	'M': {"Me", "method"}, 'm': {"me", "method"},
	'N': {"Fn", "func"}, 'n': {"fn", "func"},
	'V': {"Va", "var"}, 'v': {"va", "var"},
	'C': {"Co", "const"}, 'c': {"co", "const"},
	'I': {"If", "iface"}, 'i': {"if", "iface"},
	'L': {"Lb", "label"}, 'l': {"lb", "label"},
	'A': {"Pa", "param"}, 'a': {"pa", "param"},
}

// expand replaces tokens in a feature template.
func expand(tmpl string, fi int, f Feat, q string, pkgIdx int, kind string, mayRemain []string, names *[]NameInfo, seen map[string]bool) string {
	var pairs []string
	mk := marker(fi)
	may := map[string]bool{}
	for _, m := range mayRemain {
		may[m] = true
	}
	for _, letter := range []byte("ACFILMNTVacfilmntv") {
		pk := namePrefix[letter]
		for slot := 1; slot <= 9; slot++ {
			tok := fmt.Sprintf("@%c%d", letter, slot)
			if !strings.Contains(tmpl, tok) {
				continue
			}
			name := fmt.Sprintf("%s%s%dw", pk[0], mk, slot)
			pairs = append(pairs, tok, name)
			if !seen[name] {
				seen[name] = true
				exported := letter >= 'A' && letter <= 'Z'
				*names = append(*names, NameInfo{Name: name, Kind: pk[1], Exported: exported, Pkg: pkgIdx, Feat: kind,
					MayRemain: may[fmt.Sprintf("%c%d", letter, slot)] || (pk[1] == "method" && exported) || catalogue[kind].reflects})
			}
		}
	}
	for j, p := range f.P {
		pairs = append(pairs, fmt.Sprintf("@P%d", j), fmt.Sprint(p))
	}
	pairs = append(pairs, "@CFDIR", CtrlFlowDirective(f.P), "@Q", q, "@MK", mk)
	return strings.NewReplacer(pairs...).Replace(tmpl)
}

// CtrlFlowDirective renders the parameters of a //garble:controlflow
// directive from a feature's parameters.
func CtrlFlowDirective(p []int) string {
	for len(p) < 4 {
		p = append(p, 0)
	}
	fp := []string{"1", "1", "2", "1", "1", "2", "1", "1", "3", "1"}[p[0]%10]
	jj := []string{"0", "1", "5", "0", "2", "0", "16", "0", "1", "0"}[p[1]%10]
	bs := []string{"0", "1", "3", "0", "0", "2", "0", "max", "0", "1"}[p[2]%10]
	hard := []string{"", "xor", "delegate_table", "xor,delegate_table", "", "", "xor", "", "delegate_table", ""}[p[3]%10]
	trash := []string{"0", "0", "0", "0", "4", "1", "0", "16", "0", "2"}[p[3]%10]
	d := "flatten_passes=" + fp + " junk_jumps=" + jj + " block_splits=" + bs + " trash_blocks=" + trash
	if hard != "" {
		d += " flatten_hardening=" + hard
	}
	return d
}

// ImportPath returns the import path of package i.
func (s Spec) ImportPath(i int) string {
	if s.Pkgs[i].Dir == "" {
		return s.ModPath
	}
	return s.ModPath + "/" + s.Pkgs[i].Dir
}

// Render turns the spec into files.
func Render(s Spec) *Program {
	p := &Program{Spec: s, Files: map[string]string{}, Features: map[string]bool{}}
	p.Files["go.mod"] = "module " + s.ModPath + "\n\ngo 1.26\n"
	seen := map[string]bool{}
	type call struct {
		pkg  int
		fn   string
		feat int
	}
	var calls []call
	var ldflags []string
	hasTestMain := map[int]bool{}
	usedPkgs := map[int]bool{0: true}
	for fi, f := range s.Feats {
		def, ok := catalogue[f.Kind]
		if !ok {
			panic("progen: unknown feature kind " + f.Kind)
		}
		p.Features[f.Kind] = true
		for _, tg := range def.tags {
			p.Features[tg] = true
		}
		if f.Prov != f.User {
			p.Features["crosspkg"] = true
			p.Features["import:"+f.Imp] = true
		}
		usedPkgs[f.Prov], usedPkgs[f.User] = true, true
		mk := marker(fi)
		prov, user := s.Pkgs[f.Prov], s.Pkgs[f.User]
		useFn := "Use" + mk + "w"
		var q, impLine string
		switch {
		case f.Prov == f.User:
			q = ""
		case f.Imp == "dot":
			impLine = fmt.Sprintf("import . %q\n", s.ImportPath(f.Prov))
		case f.Imp == "named":
			alias := "al" + strings.ToLower(mk)
			impLine = fmt.Sprintf("import %s %q\n", alias, s.ImportPath(f.Prov))
			q = alias + "."
		default:
			impLine = fmt.Sprintf("import %q\n", s.ImportPath(f.Prov))
			q = prov.Name + "."
		}
		extraImp := func(list []string) string {
			var b strings.Builder
			for _, im := range list {
				if strings.HasPrefix(im, "_ ") {
					fmt.Fprintf(&b, "import _ %q\n", strings.TrimPrefix(im, "_ "))
				} else {
					fmt.Fprintf(&b, "import %q\n", im)
				}
			}
			return b.String()
		}
		provTmpl, useTmpl, useDeclTmpl := def.prov, def.use, def.useDecl
		if def.gen != nil {
			p.curPkg = f.Prov
			provTmpl, useTmpl = def.gen(fi, f, p)
			if p.pendingUseDecl != "" {
				useDeclTmpl += p.pendingUseDecl
				p.pendingUseDecl = ""
			}
		}
		if def.sinks != "" {
			provTmpl += "\nvar Sink@MKw = []any{" + def.sinks + "}\n"
			useTmpl += "\nemit(sprint(\"sink \", len(@QSink@MKw)))\n"
		}
		if def.useSinks != "" {
			useDeclTmpl += "\nvar sinku@MKw = []any{" + def.useSinks + "}\n"
			useTmpl += "\nemit(sprint(\"sinku \", len(sinku@MKw)))\n"
		}
		provBody := expand(provTmpl, fi, f, "", f.Prov, f.Kind, def.mayRemain, &p.Names, seen)
		// declarations placed in the user's file belong to the user package: expand
		// them first so that their names are attributed to it
		useDeclText := ""
		if useDeclTmpl != "" {
			useDeclText = expand(useDeclTmpl, fi, f, q, f.User, f.Kind, def.mayRemain, &p.Names, seen)
		}
		useBody := expand(useTmpl, fi, f, q, f.Prov, f.Kind, def.mayRemain, &p.Names, seen)
		useFunc := fmt.Sprintf("// %s runs feature %d (%s).\nfunc %s(emit func(string), args []string) {\n%s\n}\n", useFn, fi, f.Kind, useFn, indent(useBody))
		if useDeclText != "" {
			useFunc = useDeclText + "\n" + useFunc
		}
		provFile := fileName(prov.Dir, fmt.Sprintf("prov_%s.go", strings.ToLower(mk)))
		p.Names = append(p.Names, NameInfo{Name: fmt.Sprintf("prov_%s.go", strings.ToLower(mk)), Kind: "file", Pkg: f.Prov, Feat: f.Kind})
		if f.Prov == f.User {
			p.Files[provFile] = header(prov.Name, extraImp(unionImports(def.provImports, def.useImports))) + "\n" + provBody + "\n" + useFunc
		} else {
			p.Files[provFile] = header(prov.Name, extraImp(def.provImports)) + "\n" + provBody + "\n"
			useFile := fileName(user.Dir, fmt.Sprintf("use_%s.go", strings.ToLower(mk)))
			p.Names = append(p.Names, NameInfo{Name: fmt.Sprintf("use_%s.go", strings.ToLower(mk)), Kind: "file", Pkg: f.User, Feat: f.Kind})
			p.Files[useFile] = header(user.Name, impLine+extraImp(def.useImports)) + "\n" + useFunc
		}
		asmPath := strings.NewReplacer("/", "∕", ".", "·").Replace(s.ImportPath(f.Prov))
		provSym := s.ImportPath(f.Prov)
		if f.Prov == 0 {
			asmPath, provSym = "main", "main"
		}
		if strings.ContainsAny(asmPath, "-") {
			// assembly cannot spell such a path: use the unqualified form
			asmPath = ""
		}
		subst := func(body string) string {
			body = strings.ReplaceAll(body, "@PKGNAME", prov.Name)
			body = strings.ReplaceAll(body, "@PKGPATH", s.ImportPath(f.Prov))
			body = strings.ReplaceAll(body, "@PROVSYM", provSym)
			body = strings.ReplaceAll(body, "@ASMPATH", asmPath)
			if strings.Contains(body, "//@TESTMAIN_BEGIN") {
				a, b := strings.Index(body, "//@TESTMAIN_BEGIN"), strings.Index(body, "//@TESTMAIN_END")
				if hasTestMain[f.Prov] {
					body = body[:a] + body[b+len("//@TESTMAIN_END"):]
				} else {
					hasTestMain[f.Prov] = true
					p.Features["testmain"] = true
				}
			}
			return body
		}
		for _, tok := range def.ldX {
			name := expand("@"+tok, fi, f, "", f.Prov, f.Kind, nil, &p.Names, seen)
			val := LdValues[(f.P[0]+len(ldflags))%len(LdValues)]
			ldflags = append(ldflags, fmt.Sprintf("-X '%s.%s=%s'", provSym, name, val))
			p.LdValuesUsed = append(p.LdValuesUsed, val)
		}
		if f.Prov != f.User {
			useFile := fileName(user.Dir, fmt.Sprintf("use_%s.go", strings.ToLower(mk)))
			p.Files[useFile] = subst(p.Files[useFile])
		}
		for name, content := range def.extraProv {
			fn := expand(name, fi, f, "", f.Prov, f.Kind, nil, &p.Names, seen)
			p.Names = append(p.Names, NameInfo{Name: strings.TrimSuffix(strings.TrimSuffix(strings.TrimSuffix(fn, ".go"), ".s"), ".h"), Kind: "file", Pkg: f.Prov, Feat: f.Kind})
			body := expand(content, fi, f, "", f.Prov, f.Kind, def.mayRemain, &p.Names, seen)
			p.Files[fileName(prov.Dir, fn)] = subst(body)
		}
		// package-specific substitutions in the main files too
		p.Files[provFile] = subst(p.Files[provFile])
		calls = append(calls, call{pkg: f.User, fn: useFn, feat: fi})
	}
	// helpers in every used package
	for i := range s.Pkgs {
		if !usedPkgs[i] {
			continue
		}
		pk := s.Pkgs[i]
		p.Files[fileName(pk.Dir, "zq_util.go")] = header(pk.Name, "") + utilSrc
	}
	// packages not used by any feature still get a file so that every listed
	// package exists (they are imported blank by main)
	var blank []int
	for i := range s.Pkgs {
		if i != 0 && !usedPkgs[i] {
			pk := s.Pkgs[i]
			p.Files[fileName(pk.Dir, "zq_empty.go")] = "package " + pk.Name + "\n\nvar UnusedZq" + fmt.Sprint(i) + "w = " + fmt.Sprint(i) + "\n"
			blank = append(blank, i)
		}
	}
	// main.go
	var mb, mi strings.Builder
	imported := map[int]bool{}
	for _, c := range calls {
		if c.pkg != 0 && !imported[c.pkg] {
			imported[c.pkg] = true
			fmt.Fprintf(&mi, "import mz%d %q\n", c.pkg, s.ImportPath(c.pkg))
		}
	}
	for _, i := range blank {
		fmt.Fprintf(&mi, "import _ %q\n", s.ImportPath(i))
	}
	mb.WriteString(header("main", mi.String()))
	mb.WriteString("\nfunc main() {\n\targs := os.Args[1:]\n\temit := func(s string) { os.Stdout.WriteString(s + \"\\n\") }\n")
	for _, c := range calls {
		if c.pkg == 0 {
			fmt.Fprintf(&mb, "\t%s(emit, args)\n", c.fn)
		} else {
			fmt.Fprintf(&mb, "\tmz%d.%s(emit, args)\n", c.pkg, c.fn)
		}
	}
	mb.WriteString("\temit(\"done \" + strconv.Itoa(len(args)))\n")
	if s.Exit {
		mb.WriteString("\tos.Exit((argInt(args, 0, 3)%5 + 5) % 5)\n")
	}
	mb.WriteString("}\n")
	p.Files["main.go"] = mb.String()
	for i, pk := range s.Pkgs {
		if i == 0 {
			continue
		}
		special := pk.Name == "embed" || pk.Name == "runtime" || pk.Name == "reflect"
		if !special {
			// (a package named like a std package is no recognisable marker; its import path is)
			p.Names = append(p.Names, NameInfo{Name: pk.Name, Kind: "pkg", Pkg: i})
		}
		for _, el := range strings.Split(pk.Dir, "/") {
			if el != "internal" && el != pk.Name {
				p.Names = append(p.Names, NameInfo{Name: el, Kind: "dir", Pkg: i})
			}
		}
	}
	if len(s.Pkgs) >= 2 {
		p.Features["multipkg"] = true
	}
	ldflags = append(ldflags, p.ExtraLd...)
	p.LdFlags = strings.Join(ldflags, " ")
	return p
}

func unionImports(a, b []string) []string {
	seen := map[string]bool{}
	var out []string
	for _, x := range append(append([]string{}, a...), b...) {
		if !seen[x] {
			seen[x] = true
			out = append(out, x)
		}
	}
	return out
}

func fileName(dir, base string) string {
	if dir == "" {
		return base
	}
	return dir + "/" + base
}

func indent(s string) string {
	lines := strings.Split(strings.Trim(s, "\n"), "\n")
	for i, l := range lines {
		if l != "" {
			lines[i] = "\t" + l
		}
	}
	return strings.Join(lines, "\n")
}

const utilSrc = `
func argInt(args []string, i, def int) int {
	if i < len(args) {
		if n, err := strconv.Atoi(args[i]); err == nil {
			return n
		}
		return len(args[i])
	}
	return def
}

func argStr(args []string, i int, def string) string {
	if i < len(args) {
		return args[i]
	}
	return def
}

// sprint formats basic values without reflection (fmt would make every
// argument's type "reach reflection", which changes what garble obfuscates).
func sprint(args ...any) string {
	var b strings.Builder
	for _, a := range args {
		switch v := a.(type) {
		case string:
			b.WriteString(v)
		case int:
			b.WriteString(strconv.Itoa(v))
		case int32:
			b.WriteString(strconv.FormatInt(int64(v), 10))
		case int64:
			b.WriteString(strconv.FormatInt(v, 10))
		case uint64:
			b.WriteString(strconv.FormatUint(v, 10))
		case uint8:
			b.WriteString(strconv.Itoa(int(v)))
		case bool:
			b.WriteString(strconv.FormatBool(v))
		case float64:
			b.WriteString(strconv.FormatFloat(v, 'g', -1, 64))
		case []int:
			b.WriteString("[")
			for i, x := range v {
				if i > 0 {
					b.WriteString(" ")
				}
				b.WriteString(strconv.Itoa(x))
			}
			b.WriteString("]")
		case []string:
			b.WriteString("[" + strings.Join(v, " ") + "]")
		case error:
			b.WriteString(v.Error())
		default:
			panic("zq_util: sprint called with an unsupported type")
		}
	}
	return b.String()
}
`

// FeatureSet renders the feature set canonically (the case descriptor).
func (p *Program) FeatureSet() string {
	var ks []string
	for k := range p.Features {
		ks = append(ks, k)
	}
	sort.Strings(ks)
	return strings.Join(ks, ",")
}
