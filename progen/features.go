package progen

// The feature catalogue. Every fragment is hand-written, compiles with the
// regular toolchain for every parameter value, is deterministic, and only
// emits computed values (never names, positions or %v of structs).
//
// Tokens: @Q provider qualifier ("pkg." / "alias." / "" for dot imports and
// same-package use), @T/@t types, @F/@f fields, @M/@m methods, @N/@n funcs,
// @V/@v vars, @C/@c consts, @I/@i interfaces, @L labels, @A/@a params,
// @P0..@P3 parameters (0..9), @MK the feature's marker.

func init() {
	register("struct", featDef{
		sinks:       `@T1{}`,
		provNotMain: true,
		prov: `
type @T1 struct {
	@F1 int
	@f1 string
	@F2 []int
	@f2 map[string]int
}

func @N1(a int, s string) *@T1 {
	return &@T1{@F1: a, @f1: s, @F2: []int{a, a + 1}, @f2: map[string]int{s: a}}
}

func (x @T1) @M1() int { return x.@F1*(@P0+1) + len(x.@f1) }

func (x *@T1) @m1(d int) { x.@F1 += d; x.@F2 = append(x.@F2, d) }

func (x *@T1) @M2(d int) int { x.@m1(d); return len(x.@F2) + x.@f2[x.@f1] }
`,
		use: `
v := @Q@N1(argInt(args, 0, 3), argStr(args, 1, "s"))
emit(sprint("struct ", v.@M1(), " ", v.@M2(4), " ", v.@F1, " ", v.@F2))
w := @Q@T1{@F1: 7 + @P1}
emit(sprint("struct2 ", w.@M1(), " ", len(w.@F2)))
`,
	})

	register("embed", featDef{
		sinks:       `@T1{}, @T2{}`,
		useSinks:    `@T3{}`,
		provNotMain: true,
		tags:        []string{"embedding"},
		prov: `
type @T1 struct {
	@F1 int
	@f1 int
}

func (b *@T1) @M1() int { b.@f1++; return b.@F1 + b.@f1 }
func (b @T1) @m1() int  { return b.@F1 * 2 }

type @T2 struct {
	@T1
	@F2 string
}

func @N1(n int) @T2 { return @T2{@T1: @T1{@F1: n, @f1: @P0}, @F2: "e"} }
func (o @T2) @M2() int { return o.@m1() + len(o.@F2) }
`,
		useDecl: `
type @T3 struct {
	*@Q@T2
	@F3 int
}
`,
		use: `
o := @Q@N1(argInt(args, 0, 5))
emit(sprint("embed ", o.@M1(), " ", o.@M1(), " ", o.@F1, " ", o.@T1.@F1, " ", o.@M2()))
u := @T3{&o, 9}
u.@F1 += @P1
emit(sprint("embed2 ", u.@M1(), " ", u.@F3, " ", u.@T2.@F2, " ", u.@T2.@T1.@F1))
`,
	})

	register("embedalias", featDef{
		sinks:       `@T1{}, @T3{}, @T4[int]{}, @T6{}`,
		provNotMain: true,
		tags:        []string{"embedding", "alias"},
		prov: `
type @T1 struct{ @F1, @F2 int }

func (s @T1) @M1() int { return s.@F1 - s.@F2 }

type @T2 = @T1

type @T3 struct {
	@T2
	@F3 string
}

type @T4[X any] struct {
	@F4 X
	@f4 []X
}

func (g *@T4[X]) @M2(x X) int { g.@f4 = append(g.@f4, x); g.@F4 = x; return len(g.@f4) }

type @T5 = @T4[int]

type @T6 struct {
	*@T5
	@F5 bool
}

func @N1(a int) @T3 { return @T3{@T2{a, @P0}, "al"} }
func @N2() @T6      { return @T6{&@T5{@F4: 1}, true} }
`,
		use: `
a := @Q@N1(argInt(args, 0, 11))
emit(sprint("embedalias ", a.@M1(), " ", a.@T2.@F1, " ", a.@F2, " ", a.@F3))
b := @Q@N2()
emit(sprint("embedalias2 ", b.@M2(5), " ", b.@M2(7), " ", b.@F4, " ", b.@T5.@F4, " ", b.@F5))
var c @Q@T2 = @Q@T1{@F1: 3}
emit(sprint("embedalias3 ", c.@M1()))
`,
	})

	register("generic", featDef{
		sinks:       `@T1[string, int]{}, @T2(0)`,
		provNotMain: true,
		tags:        []string{"generics"},
		prov: `
type @I1 interface {
	~int | ~int64 | ~string
}

type @T1[K comparable, V any] struct {
	@F1 map[K]V
	@f1 []K
}

func @N1[K comparable, V any]() *@T1[K, V] { return &@T1[K, V]{@F1: map[K]V{}} }

func (m *@T1[K, V]) @M1(k K, v V) {
	if _, ok := m.@F1[k]; !ok {
		m.@f1 = append(m.@f1, k)
	}
	m.@F1[k] = v
}

func (m *@T1[K, V]) @m1(f func(K, V)) {
	for _, k := range m.@f1 {
		f(k, m.@F1[k])
	}
}

func (m *@T1[K, V]) @M2() []K { out := []K{}; m.@m1(func(k K, _ V) { out = append(out, k) }); return out }

func @N2[T @I1](xs ...T) T {
	var z T
	for _, x := range xs {
		z += x
	}
	return z
}

type @T2 int

func @N3[S ~[]E, E any](s S, f func(E) bool) (out S) {
	for _, e := range s {
		if f(e) {
			out = append(out, e)
		}
	}
	return
}
`,
		use: `
m := @Q@N1[string, int]()
m.@M1("b", 2+@P0)
m.@M1("a", argInt(args, 0, 1))
m.@M1("b", 9)
emit(sprint("generic ", m.@M2(), " ", m.@F1["a"], " ", m.@F1["b"]))
emit(sprint("generic2 ", @Q@N2(1, 2, 3+@P1), " ", @Q@N2("x", "y"), " ", int(@Q@N2[@Q@T2](4, 5))))
type localZ struct{ n int }
f := @Q@N3([]localZ{{1}, {2}, {3}, {4}}, func(l localZ) bool { return l.n%2 == @P2%2 })
emit(sprint("generic3 ", len(f), " ", f[0].n))
`,
	})

	register("iface", featDef{
		sinks:       `@t1{}, &@T2{}`,
		provNotMain: true,
		tags:        []string{"interfaces"},
		prov: `
type @I1 interface {
	@M1() int
	@m1() string
}

type @t1 struct{ @f1 int }

func (x @t1) @M1() int    { return x.@f1 * 3 }
func (x @t1) @m1() string { return strconv.Itoa(x.@f1) }

type @T2 struct{ @F2 string }

func (x *@T2) @M1() int    { return len(x.@F2) }
func (x *@T2) @m1() string { return x.@F2 + "!" }

func @N1(n int) @I1 {
	if n%2 == 0 {
		return @t1{n}
	}
	return &@T2{strings.Repeat("q", n%5)}
}

func @N2(i @I1) string { return i.@m1() + ":" + strconv.Itoa(i.@M1()) }
`,
		use: `
for k := 0; k < 3; k++ {
	i := @Q@N1(argInt(args, 0, 2) + k + @P0)
	emit(sprint("iface ", i.@M1(), " ", @Q@N2(i)))
	if t, ok := i.(*@Q@T2); ok {
		emit("iface ptr " + t.@F2)
	}
}
var sink interface{ @M1() int } = @Q@N1(4)
emit(sprint("iface2 ", sink.@M1()))
`,
	})

	register("methodval", featDef{
		sinks:       `@T1{}`,
		provNotMain: true,
		prov: `
type @T1 struct{ @F1 int }

func (c *@T1) @M1(d int) int { c.@F1 += d; return c.@F1 }
func (c @T1) @M2() int       { return c.@F1 * 10 }
func (c @T1) @m1(a, b int) int { return c.@F1 + a*b }

var @V1 = (*@T1).@M1
var @V2 = @T1.@m1

func @N1(c *@T1) func(int) int { return c.@M1 }
`,
		use: `
c := &@Q@T1{@F1: argInt(args, 0, 1)}
inc := c.@M1
get := c.@M2 // bound now: copies the receiver
inc(2)
inc(@P0)
emit(sprint("methodval ", c.@F1, " ", get(), " ", c.@M2()))
emit(sprint("methodval2 ", @Q@V1(c, 5), " ", @Q@V2(*c, 2, 3), " ", (*@Q@T1).@M1(c, 1), " ", @Q@T1.@M2(*c)))
emit(sprint("methodval3 ", @Q@N1(c)(100)))
`,
	})

	register("closure", featDef{
		prov: `
func @N1(start int) (func() int, func(int)) {
	n := start
	return func() int { n++; return n }, func(d int) { n *= d }
}

func @n1(fs []func() int) (s int) {
	for _, f := range fs {
		s += f()
	}
	return
}

func @N2(k int) int {
	var fs []func() int
	for i := 0; i < k; i++ {
		fs = append(fs, func() int { return i * i })
	}
	acc := 0
	add := func(x int) func() int { return func() int { acc += x; return acc } }
	fs = append(fs, add(3), add(@P0))
	return @n1(fs) + acc
}

var @V1 = func() func(string) string {
	pre := "<"
	return func(s string) string { pre += "-"; return pre + s }
}()
`,
		use: `
next, mul := @Q@N1(argInt(args, 0, 2))
next()
mul(3)
emit(sprint("closure ", next(), " ", @Q@N2(4+@P1%3)))
emit("closure2 " + @Q@V1("a") + @Q@V1("b"))
`,
	})

	register("typeswitch", featDef{
		sinks:       `@T1{}, @T2{}, @t4{}`,
		provNotMain: true,
		prov: `
type @T1 struct{ @F1 int }
type @T2 []string
type @T3 func() int
type @I1 interface{ @M1() string }

func (t @T1) @M1() string { return "t" + strconv.Itoa(t.@F1) }

func @N1(v any) string {
	switch x := v.(type) {
	case nil:
		return "nil"
	case int, int64:
		return sprint("int:", x)
	case @T1:
		return "T1:" + x.@M1()
	case *@T1:
		x.@F1++
		return "pT1:" + x.@M1()
	case @T2:
		return "T2:" + strings.Join(x, "+")
	case @T3:
		return sprint("T3:", x())
	case @I1:
		return "I1:" + x.@M1()
	case error:
		return "err:" + x.Error()
	case func(int) int:
		return sprint("fn:", x(2))
	default:
		_ = x
		return "other"
	}
}

type @t4 struct{}

func (@t4) @M1() string { return "hidden" }

func @N2() any { return @t4{} }
`,
		use: `
vals := []any{nil, 3, int64(4), @Q@T1{5}, &@Q@T1{@F1: 6 + @P0}, @Q@T2{"a", "b"}, @Q@T3(func() int { return 7 }), @Q@N2(), errors.New("e"), func(i int) int { return i * argInt(args, 0, 3) }, 1.5}
for _, v := range vals {
	emit("typeswitch " + @Q@N1(v))
}
switch y := vals[3].(type) {
case @Q@T1:
	emit(sprint("typeswitch local ", y.@F1))
}
`,
	})

	register("labels", featDef{
		prov: `
func @N1(n, m int) (out []int) {
@L1:
	for i := 0; i < n; i++ {
	@L2:
		for j := 0; j < m; j++ {
			switch {
			case (i+j)%5 == 4:
				continue @L1
			case i*j > 12+@P0:
				break @L1
			case j > i:
				break @L2
			}
			out = append(out, i*10+j)
		}
	}
	k := 0
@L3:
	if k < 3 {
		out = append(out, -k)
		k++
		goto @L3
	}
	return out
}

func @N2(s string) int {
	c := 0
@L1:
	for _, r := range s {
		select {
		default:
			if r == 'x' {
				break @L1
			}
			c++
		}
	}
	return c
}
`,
		use: `
emit(sprint("labels ", @Q@N1(argInt(args, 0, 4)%7, 5), " ", @Q@N2(argStr(args, 1, "abxcd"))))
@L1:
for i := 0; i < 3; i++ {
	for {
		emit(sprint("labels loop ", i))
		continue @L1
	}
}
`,
	})

	register("conv", featDef{
		sinks:       `@T1{}`,
		useSinks:    `@T2{}, @T3{}`,
		provNotMain: true,
		tags:        []string{"structconv"},
		prov: `
type @T1 struct {
	@F1 int    ` + "`json:\"one\"`" + `
	@F2 string ` + "`xml:\"two\" other:\"x\"`" + `
	@F3 struct {
		@F4 bool
		@F5 []int
	}
}

func @N1(x @T1) int { return x.@F1 + len(x.@F2) + len(x.@F3.@F5) }

func @N2() struct {
	@F1 int
	@F2 string
} {
	return struct {
		@F1 int
		@F2 string
	}{@P0, "anon"}
}
`,
		useDecl: `
type @T2 struct {
	@F1 int
	@F2 string ` + "`json:\"zwei\"`" + `
	@F3 struct {
		@F4 bool ` + "`tag:\"inner\"`" + `
		@F5 []int
	}
}

type @T3 struct {
	@F1 int ` + "`q:\"r\"`" + `
	@F2 string
}
`,
		use: `
mine := @T2{@F1: argInt(args, 0, 2), @F2: "conv"}
mine.@F3.@F5 = []int{1, 2, 3}
theirs := @Q@T1(mine)
theirs.@F3.@F4 = true
emit(sprint("conv ", @Q@N1(theirs), " ", @Q@N1(@Q@T1(mine)), " ", @T2(theirs).@F3.@F4))
an := @Q@N2()
t3 := @T3(an)
back := struct {
	@F1 int
	@F2 string
}(t3)
emit(sprint("conv2 ", t3.@F1, " ", back.@F2, " ", an.@F1+an.@F1))
p := &mine
q := (*@Q@T1)(p)
q.@F1 = 77
emit(sprint("conv3 ", mine.@F1))
`,
	})

	register("anon", featDef{
		sinks: `@V1, @V2, @V3`,
		prov: `
var @V1 = struct {
	@F1 int
	@f1 string
}{@P0, "anon"}

var @V2 = []struct {
	@F2 string
	@F3 *struct{ @F4 int }
}{{"a", nil}, {"b", &struct{ @F4 int }{4}}}

func @N1(p struct{ @F5, @F6 int }) struct{ @F7 int } {
	return struct{ @F7 int }{p.@F5*p.@F6 + len(@V1.@f1)}
}

var @V3 = map[string]struct{ @F8 []int }{"k": {[]int{1, 2}}}
`,
		use: `
emit(sprint("anon ", @Q@V1.@F1, " ", len(@Q@V2), " ", @Q@V2[1].@F3.@F4, " ", @Q@V2[0].@F2))
r := @Q@N1(struct{ @F5, @F6 int }{argInt(args, 0, 3), 4})
emit(sprint("anon2 ", r.@F7, " ", @Q@V3["k"].@F8))
loc := struct {
	@F1 int
	in struct{ deep []string }
}{@F1: 5}
loc.in.deep = append(loc.in.deep, "z")
emit(sprint("anon3 ", loc.@F1, " ", loc.in.deep))
`,
	})

	register("consts", featDef{
		sinks:       `@C1, @T2{}, @T3{}`,
		provNotMain: true,
		prov: `
type @T1 uint8

const (
	@C1 @T1 = iota + 1
	@C2
	_
	@C3
	@c1 = "cs" + "t"
	@C4 = len(@c1) * 4
	@C5 = 1 << (@C4 % 7)
)

const @C6, @c2 = 3.5, 'x'

type @T2 [@C4]byte
type @T3 [len(@c1) + int(@C3)]int

func (c @T1) @M1() string {
	switch c {
	case @C1:
		return "one"
	case @C2, @C3:
		return "two-or-four"
	}
	return "none"
}

func @N1(s string) int {
	switch s {
	case @c1:
		return 1
	case @c1 + "!":
		return 2
	case "lit":
		return 3
	}
	return 0
}

var @V1 = [...]string{@C1: "a", @C3: "d"}
`,
		use: `
var a @Q@T2
var b @Q@T3
emit(sprint("consts ", int(@Q@C1), " ", int(@Q@C2), " ", int(@Q@C3), " ", @Q@C4, " ", @Q@C5, " ", @Q@C6, " ", len(a), " ", len(b)))
emit(sprint("consts2 ", @Q@C3.@M1(), " ", @Q@T1(argInt(args, 0, 1)).@M1(), " ", @Q@N1("cst"), " ", @Q@N1("cst!"), " ", @Q@N1(argStr(args, 1, "lit")), " ", len(@Q@V1), " ", @Q@V1[4]))
const local = @Q@C4 + 2
var arr [local]int
emit(sprint("consts3 ", len(arr)))
`,
	})

	register("initorder", featDef{
		prov: `
var @V1 = @n1("a", @V2+1)
var @V2 = @n1("b", @P0)
var @v3 []string

func @n1(tag string, n int) int {
	@v3 = append(@v3, tag+strconv.Itoa(n))
	return n * 2
}

func init() { @v3 = append(@v3, "init1") }
func init() { @v3 = append(@v3, "init2:"+strconv.Itoa(@V1)) }

func @N1() string { return strings.Join(@v3, ",") }
`,
		use: `
emit("initorder " + @Q@N1() + " " + strconv.Itoa(@Q@V1+@Q@V2))
`,
	})

	register("errors", featDef{
		provNotMain: true,
		reflects:    true, // fmt.Errorf("%w", &T1{}) hands T1 to fmt
		prov: `
type @T1 struct {
	@F1 int
	@f1 error
}

func (e *@T1) Error() string { return "code " + strconv.Itoa(e.@F1) }
func (e *@T1) Unwrap() error { return e.@f1 }

var @V1 = errors.New("sentinel")

type @t2 string

func (e @t2) Error() string { return string(e) }
func (e @t2) Is(target error) bool { return target == @V1 }

func @N1(n int) error {
	switch n % 4 {
	case 0:
		return nil
	case 1:
		return &@T1{@F1: n, @f1: @V1}
	case 2:
		return fmt.Errorf("wrapped: %w", &@T1{@F1: n + @P0})
	}
	return @t2("plain")
}
`,
		use: `
for n := argInt(args, 0, 0); n < argInt(args, 0, 0)+4; n++ {
	err := @Q@N1(n)
	var te *@Q@T1
	switch {
	case err == nil:
		emit("errors nil")
	case errors.As(err, &te):
		emit(sprint("errors as ", te.@F1, " ", errors.Is(err, @Q@V1), " ", err.Error()))
	default:
		emit(sprint("errors other ", errors.Is(err, @Q@V1), " ", err))
	}
}
`,
	})

	register("panics", featDef{
		sinks:       `@T1{}`,
		provNotMain: true,
		prov: `
type @T1 struct{ @F1 string }

func @N1(n int) (res string) {
	defer func() {
		if r := recover(); r != nil {
			switch v := r.(type) {
			case @T1:
				res = "T1:" + v.@F1
			case error:
				res = "rt:" + strconv.Itoa(len(v.Error()) * 0)
			case string:
				res = "s:" + v
			default:
				res = "?"
			}
		}
	}()
	return @n1(n)
}

func @n1(n int) string {
	defer func() {}()
	switch n % 5 {
	case 0:
		panic(@T1{"boom"})
	case 1:
		var m map[string]int
		m["x"] = 1
	case 2:
		var arr []int
		_ = arr[n]
	case 3:
		panic("str" + strconv.Itoa(@P0))
	}
	return "fine"
}
`,
		use: `
for n := 0; n < 5; n++ {
	emit("panics " + @Q@N1(n+argInt(args, 0, 0)*5))
}
func() {
	defer func() {
		r := recover()
		t, ok := r.(@Q@T1)
		emit(sprint("panics2 ", ok, " ", t.@F1))
	}()
	panic(@Q@T1{@F1: "direct"})
}()
`,
	})

	register("goroutines", featDef{
		sinks: `&@T1{}`,
		prov: `
type @T1 struct {
	@f1 sync.Mutex
	@F1 map[int]int
}

func (s *@T1) @M1(k, v int) { s.@f1.Lock(); defer s.@f1.Unlock(); s.@F1[k] += v }

func @N1(workers, n int) (int, int) {
	st := &@T1{@F1: map[int]int{}}
	var wg sync.WaitGroup
	ch := make(chan int)
	res := make(chan int, workers)
	for w := 0; w < workers; w++ {
		wg.Add(1)
		go func(id int) {
			defer wg.Done()
			sum := 0
			for x := range ch {
				st.@M1(x%3, x)
				sum += x
			}
			res <- sum
		}(w)
	}
	for i := 1; i <= n; i++ {
		ch <- i
	}
	close(ch)
	wg.Wait()
	close(res)
	total := 0
	for s := range res {
		total += s
	}
	return total, st.@F1[0] + st.@F1[1]*2 + st.@F1[2]*3
}
`,
		provImports: []string{"sync"},
		use: `
a, b := @Q@N1(2+@P0%3, 10+argInt(args, 0, 0)%10)
emit(sprint("goroutines ", a, " ", b))
done := make(chan struct{})
var got []int
go func() {
	defer close(done)
	for i := 0; i < 3; i++ {
		got = append(got, i*@P1)
	}
}()
<-done
emit(sprint("goroutines2 ", got))
`,
	})

	register("functypes", featDef{
		sinks:       `@T1(nil), @T2{}, @T3{}`,
		provNotMain: true,
		prov: `
type @T1 func(int, ...string) string

func (f @T1) @M1(n int) string { return f(n, "a", "b") + f(n) }

type @T2 map[string][]int

func (m @T2) @M2(k string, v ...int) @T2 { m[k] = append(m[k], v...); return m }
func (m @T2) @m1() (n int) {
	for _, v := range m {
		n += len(v)
	}
	return
}

type @T3 []@T1

func (s @T3) @M3(n int) (out []string) {
	for _, f := range s {
		out = append(out, f.@M1(n))
	}
	return
}

func @N1(pre string) @T1 {
	return func(n int, rest ...string) string { return pre + strconv.Itoa(n+len(rest)) + strings.Join(rest, "") }
}

func @N2(m @T2) int { return m.@m1() }
`,
		use: `
f := @Q@N1(argStr(args, 1, "p"))
emit("functypes " + f.@M1(@P0) + " " + f(1, "z"))
m := @Q@T2{}.@M2("a", 1, 2).@M2("b").@M2("a", 3)
emit(sprint("functypes2 ", @Q@N2(m), " ", m["a"], " ", @Q@T3{f, @Q@N1("q")}.@M3(2)))
`,
	})

	register("embediface", featDef{
		sinks:       `@T1{}, @t2(0), @T3{}`,
		provNotMain: true,
		tags:        []string{"embedding", "interfaces"},
		prov: `
type @I1 interface{ @M1() int }
type @I2 interface {
	@I1
	@m1() int
}

type @T1 struct {
	@I1
	@F1 int
}

type @t2 int

func (x @t2) @M1() int { return int(x) * 2 }
func (x @t2) @m1() int { return int(x) + @P0 }

func @N1(n int) @T1 { return @T1{@t2(n), n} }
func @N2(n int) @I2 { return @t2(n) }

type @T3 struct{ @I2 }

func (t @T3) @M1() int { return t.@I2.@M1() + 1000 }
`,
		use: `
a := @Q@N1(argInt(args, 0, 3))
emit(sprint("embediface ", a.@M1(), " ", a.@I1.@M1(), " ", a.@F1))
b := @Q@T3{@Q@N2(4)}
var i @Q@I1 = b
emit(sprint("embediface2 ", i.@M1(), " ", b.@I2.@M1()))
_, isI2 := i.(@Q@I2)
emit(sprint("embediface3 ", isI2))
`,
	})

	register("shadow", featDef{
		sinks: `@T1{}`,
		prov: `
type @T1 struct{ @F1 int }

var @V1 = 10

func @N1(@V1 int) int {
	// the parameter shadows the package-level variable
	type @T1 struct{ @F1 string }
	x := @T1{@F1: strconv.Itoa(@V1)}
	{
		@V1 := @V1 + 1
		x.@F1 += strconv.Itoa(@V1)
	}
	return len(x.@F1) + @V1
}

func @N2() int {
	@N1 := func(n int) int { return n + @V1 }
	fmt := @T1{@F1: @P0}
	strconv := fmt.@F1 + 1
	return @N1(strconv)
}

func (@T1 @T1) @M1() int { return @T1.@F1 * 2 }
`,
		use: `
emit(sprint("shadow ", @Q@N1(argInt(args, 0, 5)), " ", @Q@N2(), " ", @Q@T1{@F1: 4}.@M1()))
`,
	})

	register("sortmaps", featDef{
		sinks:       `@T1{}, @T2{}`,
		provNotMain: true,
		prov: `
type @T1 struct {
	@F1 string
	@F2 int
	@f1 []string
}

type @T2 []@T1

func (s @T2) Len() int           { return len(s) }
func (s @T2) Less(i, j int) bool { return s[i].@F2 < s[j].@F2 || s[i].@F2 == s[j].@F2 && s[i].@F1 < s[j].@F1 }
func (s @T2) Swap(i, j int)      { s[i], s[j] = s[j], s[i] }

func @N1(words []string) @T2 {
	idx := map[string]*@T1{}
	for i, w := range words {
		e := idx[w]
		if e == nil {
			e = &@T1{@F1: w}
			idx[w] = e
		}
		e.@F2 += i + @P0
		e.@f1 = append(e.@f1, strconv.Itoa(i))
	}
	var out @T2
	for _, e := range idx {
		out = append(out, *e)
	}
	sort.Sort(out)
	return out
}

func (t @T1) @M1() string { return t.@F1 + "=" + strconv.Itoa(t.@F2) + "/" + strings.Join(t.@f1, ".") }
`,
		use: `
ws := append([]string{"b", "a", "c", "a", "b", "a"}, args...)
var parts []string
for _, e := range @Q@N1(ws) {
	parts = append(parts, e.@M1())
}
emit("sortmaps " + strings.Join(parts, " "))
`,
	})

	register("recursive", featDef{
		sinks:       `@T1[int]{}, @T2{}`,
		provNotMain: true,
		tags:        []string{"generics"},
		prov: `
type @T1[T any] struct {
	@F1 T
	@F2 *@T1[T]
}

func (l *@T1[T]) @M1(v T) *@T1[T] { return &@T1[T]{v, l} }
func (l *@T1[T]) @M2(f func(T)) {
	for n := l; n != nil; n = n.@F2 {
		f(n.@F1)
	}
}

type @T2 struct {
	@F3       int
	@F4, @f1 *@T2
}

func (t *@T2) @M3(v int) *@T2 {
	if t == nil {
		return &@T2{@F3: v}
	}
	if v < t.@F3 {
		t.@F4 = t.@F4.@M3(v)
	} else {
		t.@f1 = t.@f1.@M3(v)
	}
	return t
}

func (t *@T2) @m1(out *[]int) {
	if t == nil {
		return
	}
	t.@F4.@m1(out)
	*out = append(*out, t.@F3)
	t.@f1.@m1(out)
}

func @N1(vs ...int) (out []int) {
	var root *@T2
	for _, v := range vs {
		root = root.@M3(v)
	}
	root.@m1(&out)
	return
}
`,
		use: `
var l *@Q@T1[string]
l = l.@M1("a").@M1("b").@M1(argStr(args, 0, "c"))
s := ""
l.@M2(func(v string) { s += v })
emit(sprint("recursive ", s, " ", @Q@N1(5, 2, 8, @P0, 1, 9)))
li := (&@Q@T1[int]{@F1: 1}).@M1(2)
emit(sprint("recursive2 ", li.@F1+li.@F2.@F1))
`,
	})

	register("genericmethods", featDef{
		sinks:       `@T1[int]{}, @T2[string]{}`,
		provNotMain: true,
		tags:        []string{"generics", "embedding"},
		prov: `
type @I1[T any] interface {
	@M1() T
	@m1(T) bool
}

type @T1[T comparable] struct {
	@F1 T
}

func (b @T1[T]) @M1() T       { return b.@F1 }
func (b @T1[T]) @m1(o T) bool { return b.@F1 == o }

type @T2[T comparable] struct {
	@T1[T]
	@F2 []T
}

func (c *@T2[T]) @M2(v T) int {
	if c.@m1(v) {
		c.@F2 = append(c.@F2, v)
	}
	return len(c.@F2)
}

func @N1[T comparable](v T) *@T2[T] { return &@T2[T]{@T1: @T1[T]{@F1: v}} }

func @N2[T any](i @I1[T], probe T) (T, bool) { return i.@M1(), i.@m1(probe) }

type @T3 = @T2[string]
`,
		use: `
c := @Q@N1(argInt(args, 0, 4))
c.@M2(4)
c.@M2(argInt(args, 0, 4))
v, ok := @Q@N2[int](c, 4+@P0)
emit(sprint("genericmethods ", len(c.@F2), " ", c.@F1, " ", c.@T1.@F1, " ", v, " ", ok))
var s @Q@T3
s.@F1 = "k"
emit(sprint("genericmethods2 ", s.@M2("k"), " ", s.@M1()))
`,
	})

	register("unexportedclash", featDef{
		sinks:       `@T1{}`,
		useSinks:    `@T2{}`,
		provNotMain: true,
		prov: `
// Same unexported field and method names as the user's own type.
type @T1 struct {
	value int
	name  string
}

func @N1(v int) @T1          { return @T1{value: v, name: "prov"} }
func (t @T1) get() int       { return t.value + @P0 }
func (t @T1) @M1() string    { return t.name + strconv.Itoa(t.get()) }
func helper@MK(n int) int     { return n + 1 }
func @N2(n int) int          { return helper@MK(n) }
`,
		useDecl: `
type @T2 struct {
	@Q@T1
	value int
	name  string
}

func (t @T2) get() int { return t.value * 100 }
`,
		use: `
u := @T2{@Q@N1(3), argInt(args, 0, 2), "user"}
emit(sprint("unexportedclash ", u.get(), " ", u.@M1(), " ", u.name, " ", u.value, " ", @Q@N2(1)))
`,
	})

	register("genericanon", featDef{
		// Known finding C01/generic-anon-field: selecting a field of an
		// anonymous struct returned by a generic function of another package.
		provNotMain: true,
		needs:       []string{"known-generic-anon"},
		prov: `
func @N1[T any](v T) struct {
	@F1 T
	@F2 int
} {
	return struct {
		@F1 T
		@F2 int
	}{v, @P0}
}
`,
		use: `
g := @Q@N1(argInt(args, 0, 1))
emit(sprint("genericanon ", g.@F1, " ", g.@F2))
`,
	})
}

func init() {
	register("ldflags", featDef{
		needs: []string{"ldflags"},
		tags:  []string{"ldflags"},
		ldX:   []string{"V1", "v2", "V3"},
		prov: `
var @V1 = "default-one"
var @v2 string
var @V3 = "unset"

// not a link-time target: an ordinary package-level string next to them
var @V4 = "ordinary value"

func @N1() string { return @V1 + "|" + @v2 + "|" + @V3 + "|" + @V4 }
`,
		use: `
emit("ldflags " + @Q@N1() + " " + strconv.Itoa(len(@Q@V1)))
`,
	})

	register("linkname", featDef{
		sinks:       `@T1{}`,
		needs:       []string{"linkname"},
		tags:        []string{"linkname"},
		provNotMain: true,
		needs2:      true,
		crossOnly:   true,
		prov: `
type @T1 struct{ @F1 string }

func @n1(x int) int { return x*3 + @P0 }

func (r @T1) @m1() string { return "val:" + r.@F1 }

func (r *@T1) @m2(extra string) string { r.@F1 += extra; return "ptr:" + r.@F1 }

func (r @T1) @M3() string { return "exp:" + r.@F1 }

var @v1 = []int{1, 2, @P1}

// keep the symbols alive in the provider itself
var @V9 = []any{@n1, @T1.@m1, (*@T1).@m2, @T1.@M3, &@v1}
`,
		useImports: []string{"_ unsafe"},
		useDecl: `
//go:linkname @n2 @PROVSYM.@n1
func @n2(x int) int

//go:linkname @n3 @PROVSYM.@T1.@m1
func @n3(@Q@T1) string

//go:linkname @n4 @PROVSYM.(*@T1).@m2
func @n4(*@Q@T1, string) string

//go:linkname @n5 @PROVSYM.@T1.@M3
func @n5(@Q@T1) string

//go:linkname @v2 @PROVSYM.@v1
var @v2 []int
`,
		use: `
r := @Q@T1{@F1: argStr(args, 1, "f")}
emit(sprint("linkname ", @n2(argInt(args, 0, 2)), " ", @n3(r), " ", @n4(&r, "+x"), " ", @n5(r), " ", @v2, " ", len(@Q@V9)))
`,
	})

	register("asm", featDef{
		sinks:       `@T1{}`,
		needs:       []string{"asm"},
		tags:        []string{"asm"},
		provNotMain: true,
		prov: `
// implemented in assembly
func @N1(x, y int32) int32
func @n2(x, y int32) int32
func @n3(x, y int32) int32
func @n4()
func @n5(a *@T1) int64
func @n6() int64

var @v1 = [4]uint64{1, 2, 3, 4}

// field names share prefixes on purpose
type @T1 struct {
	@f1b, @f1, @f1bc int64
}

func @N7(a, b int32) (int32, int32, uint64, int64, int64) {
	@n4()
	return @n2(a, b), @n3(b, a), @v1[0] + @v1[1], @n5(&@T1{@f1b: 5, @f1: 10, @f1bc: 20}), @n6()
}
`,
		extraProv: map[string]string{
			"asm_@MK_amd64.s": `#include "go_asm.h"
#include "zqdef_@MK_amd64.h"

// A comment with many·special∕asm·runes is fine.
TEXT ·@N1(SB),$0-16
	MOVL x+0(FP), BX
	MOVL y+4(FP), BP
	ADDL BP, BX
	MOVL BX, ret+8(FP)
	RET

// by package path (or name where the path cannot be spelled)
TEXT ·@n2(SB),$0-16
	JMP @ASMPATH·@N1(SB)

// unqualified
TEXT ·@n3(SB),$0-16
	JMP ·@N1(SB)

TEXT ·@n4(SB),$0-0
	addTo@MK($1@P0)
	ADDL $34,·@v1+8(SB) // no space after the comma
	RET

TEXT ·@n5(SB), $0-16
	MOVQ a+0(FP), R11
	MOVQ @T1_@f1b(R11), AX
	MOVQ @T1_@f1(R11), BX
	ADDQ BX, AX
	MOVQ @T1_@f1bc(R11), BX
	ADDQ BX, AX
	MOVQ AX, ret+8(FP)
	RET

TEXT ·@n6(SB), $0-8
	MOVQ $@T1__size, AX
	MOVQ AX, ret+0(FP)
	RET
`,
			"zqdef_@MK_amd64.h": `#define addTo@MK(arg) \
	ADDL arg, ·@v1+0(SB)
`,
		},
		use: `
a, b, c, d, e := @Q@N7(int32(argInt(args, 0, 3)), 4)
emit(sprint("asm ", a, " ", b, " ", c, " ", d, " ", e, " ", @Q@N1(20, 22)))
`,
	})

	register("tests", featDef{
		sinks:       `@T1{}`,
		needs:       []string{"test"},
		tags:        []string{"tests"},
		provNotMain: true,
		needs2:      true,
		prov: `
type @T1 struct {
	@f1 int
	@F2 string
}

func @N1(n int) *@T1       { return &@T1{@f1: n} }
func (t *@T1) @M1() int    { return t.@f1 * 2 }

// the same identifier is declared by the internal and the external test package too
func sameName@MK() string { return "pkg" }
func (t *@T1) @m1() string { return strconv.Itoa(t.@f1 + @P0) }
func @n2(a, b int) int     { return a*b + 1 }
`,
		extraProv: map[string]string{
			"zq@MK_test.go": `package @PKGNAME

import (
	"fmt"
	"os"
	"reflect"
	"runtime"
	"strings"
	"testing"
)

var _ = os.Exit

func sameNameT@MK() string { return "internal test" }

// fnName@MK reports the (possibly obfuscated) name of a function without its package part.
func fnName@MK(f any) string {
	n := runtime.FuncForPC(reflect.ValueOf(f).Pointer()).Name()
	return n[strings.LastIndex(n, ".")+1:]
}

func Test@MKInternal(t *testing.T) {
	_ = sameName@MK() + sameNameT@MK()
	fmt.Println("zqname @MK pkg", fnName@MK(sameName@MK))
	fmt.Println("zqname @MK int", fnName@MK(sameNameT@MK))
	v := @N1(4)
	fmt.Println("zqout internal", v.@m1(), @n2(3, 4))
	if v.@m1() == "" {
		t.Fatal("empty")
	}
	t.Run("sub", func(t *testing.T) {
		if @n2(1, 1) != 2 {
			t.Error("bad")
		}
	})
}

func Test@MKFailing(t *testing.T) {
	if @P1 >= 7 {
		fmt.Println("zqout failing on purpose")
		t.Fail()
	}
}

func Test@MKSkipped(t *testing.T) {
	if @P2 >= 5 {
		t.Skip()
	}
}

func Benchmark@MK(b *testing.B) {
	for i := 0; i < b.N; i++ {
		_ = @n2(i, i)
	}
}

//@TESTMAIN_BEGIN
func TestMain(m *testing.M) {
	fmt.Println("zqout testmain before")
	code := m.Run()
	fmt.Println("zqout testmain after", code)
	os.Exit(code)
}
//@TESTMAIN_END
`,
			"zqx@MK_test.go": `package @PKGNAME_test

import (
	"fmt"
	"reflect"
	"runtime"
	"strings"
	"testing"

	"@PKGPATH"
)

func sameName@MK() string  { return "external test" }
func sameNameT@MK() string { return "external test" }

func fnNameX@MK(f any) string {
	n := runtime.FuncForPC(reflect.ValueOf(f).Pointer()).Name()
	return n[strings.LastIndex(n, ".")+1:]
}

func Test@MKExternal(t *testing.T) {
	_ = sameName@MK() + sameNameT@MK()
	fmt.Println("zqname @MK ext", fnNameX@MK(sameName@MK))
	fmt.Println("zqname @MK extT", fnNameX@MK(sameNameT@MK))
	v := @PKGNAME.@N1(21)
	// a keyed literal and a field selection of a struct that also has an unexported field
	w := @PKGNAME.@T1{@F2: "lit"}
	w.@F2 += "+sel"
	fmt.Println("zqout external", v.@M1(), w.@F2, len(v.@F2))
	if v.@M1() != 42 {
		t.Errorf("got %d", v.@M1())
	}
}

func Example_e@MK() {
	fmt.Println(@PKGNAME.@N1(2).@M1())
	// Output: 4
}
`,
		},
		use: `
emit(sprint("tests ", @Q@N1(argInt(args, 0, 5)).@M1()))
`,
	})
}

func init() {
	// Functions marked for control-flow obfuscation. Bodies stay away from the
	// shapes with known miscompilations (range over non-ASCII strings, named
	// results set by a recovering defer, loop-carried swaps): this feature is
	// about builds (C03, C06), C11 has its own body generator.
	register("ctrlflow", featDef{
		needs: []string{"ctrlflow"},
		tags:  []string{"ctrlflow"},
		prov: `
//garble:controlflow @CFDIR
func @N1(n int) int {
	s := 0
	for i := 0; i < n; i++ {
		if i%3 == 0 {
			s += i * @P0
		} else if i%5 == 1 {
			s -= 2
		} else {
			s++
		}
	}
	return s
}

type @T1 struct{ @f1 []int }

//garble:controlflow @CFDIR
func (t *@T1) @M1(v int) string {
	t.@f1 = append(t.@f1, v)
	switch {
	case v < 0:
		return "neg"
	case v == 0:
		return "zero"
	case len(t.@f1) > 3:
		return "many" + strconv.Itoa(len(t.@f1))
	}
	out := ""
	for _, x := range t.@f1 {
		out += strconv.Itoa(x) + ","
	}
	return out
}

//garble:controlflow flatten_passes=1
func @n2(words []string) map[string]int {
	m := map[string]int{}
	for i, w := range words {
		if w == "" {
			continue
		}
		m[strings.ToUpper(w)] += i + 1
	}
	return m
}

func @N3(words ...string) int {
	total := 0
	for _, v := range @n2(words) {
		total += v
	}
	return total
}
`,
		use: `
t := &@Q@T1{}
emit(sprint("ctrlflow ", @Q@N1(argInt(args, 0, 9)+7), " ", t.@M1(3), " ", t.@M1(0), " ", t.@M1(-1), " ", t.@M1(8), " ", @Q@N3("a", "", "b", "a")))
`,
	})
}

func init() {
	// Identifiers that start with non-ASCII letters: exportedness is a Unicode
	// property, not an ASCII one.
	register("unicode", featDef{
		provNotMain: true,
		tags:        []string{"unicode-identifiers"},
		prov: `
type Ühr@MKw struct {
	Δt@MKw   int
	ärmel@MKw string
}

func Ölstand@MKw(n int) *Ühr@MKw { return &Ühr@MKw{Δt@MKw: n * (@P0 + 1), ärmel@MKw: "ä"} }

func (u *Ühr@MKw) Ändern@MKw(d int) int { u.Δt@MKw += d; return u.Δt@MKw + len(u.ärmel@MKw) }

var Änderung@MKw = 7

const Éinheit@MKw = "é"

type Жук@MKw interface{ Ändern@MKw(int) int }

func öffnen@MKw(j Жук@MKw) int { return j.Ändern@MKw(1) }

func Öffnen@MKw(j Жук@MKw) int { return öffnen@MKw(j) * 2 }
`,
		sinks: `Ühr@MKw{}`,
		use: `
u := @QÖlstand@MKw(argInt(args, 0, 2))
u.Δt@MKw += @QÄnderung@MKw
emit(sprint("unicode ", u.Ändern@MKw(3), " ", @QÖffnen@MKw(u), " ", @QÉinheit@MKw, " ", u.Δt@MKw))
w := @QÜhr@MKw{Δt@MKw: 1}
emit(sprint("unicode2 ", w.Δt@MKw))
`,
	})
}
