package progen

import (
	"fmt"
	"strings"
)

// The "reflect" feature (C08): for every selected flow path a distinct
// struct type is declared and reaches reflect.TypeOf / encoding/json only
// through that path; a recursive describer prints Name(), Kind(), field
// names and method names, so the output shows whether the original names
// survived. Output uses Name(), never String()/PkgPath() (package qualifiers
// are obfuscated on purpose).

var reflFlows = []string{
	"direct", "helper1", "helper2nd", "helperchain", "ifacemethod", "pointer", "slice", "variadic",
	"funcvalue", "json", "jsonunmarshal", "methodexpr", "boundmethod", "fieldbyname", "nested", "generic", "alias", "mapvalue", "anon", "userhelper",
}

// ReflFlows lists the flow names (for labels).
func ReflFlows() []string { return reflFlows }

func init() {
	register("reflect", featDef{
		needs:       []string{"reflect"},
		tags:        []string{"reflect"},
		provNotMain: true,
		reflects:    true,
		provImports: []string{"reflect", "encoding/json"},
		useImports:  []string{"reflect", "encoding/json"},
		gen: func(fi int, f Feat, p *Program) (string, string) {
			mk := marker(fi)
			var prov, use, useDecl strings.Builder
			// helper names are drawn so that they sort before or after their callers
			pre := []string{"a", "z", "m", "Z"}[f.P[3]%4]
			exp := func(s string) string { return strings.ToUpper(s[:1]) + s[1:] }
			H := func(n string) string { return exp(pre) + "h" + mk + "w" + n } // exported helper in provider
			fmt.Fprintf(&prov, `
// Desc%[1]sw describes a type through reflection: names only.
func Desc%[1]sw(t reflect.Type, depth int) string {
	if depth > 4 {
		return "..."
	}
	switch t.Kind() {
	case reflect.Pointer:
		return "*" + Desc%[1]sw(t.Elem(), depth+1)
	case reflect.Slice:
		return "[]" + Desc%[1]sw(t.Elem(), depth+1)
	case reflect.Array:
		return "[" + strconv.Itoa(t.Len()) + "]" + Desc%[1]sw(t.Elem(), depth+1)
	case reflect.Map:
		return "map[" + Desc%[1]sw(t.Key(), depth+1) + "]" + Desc%[1]sw(t.Elem(), depth+1)
	case reflect.Struct:
		name := t.Name()
		if i := strings.IndexByte(name, '['); i >= 0 {
			name = name[:i] // type arguments are printed with their (obfuscated) package path
		}
		s := name + "{"
		for i := 0; i < t.NumField(); i++ {
			fd := t.Field(i)
			s += fd.Name + ":" + Desc%[1]sw(fd.Type, depth+1) + ";"
		}
		s += "}"
		for i := 0; i < t.NumMethod(); i++ {
			s += "/" + t.Method(i).Name
		}
		return s
	}
	return t.Name() + "(" + t.Kind().String() + ")"
}

func %[2]s(x any) string { return Desc%[1]sw(reflect.TypeOf(x), 0) }
func %[3]s(n int, x any) string { return strconv.Itoa(n) + Desc%[1]sw(reflect.TypeOf(x), 0) }
func %[4]s(x any) string { return %[2]s(x) }
func %[5]s(xs ...any) string {
	s := ""
	for _, x := range xs {
		s += Desc%[1]sw(reflect.TypeOf(x), 0) + "|"
	}
	return s
}
func %[6]s(x any) string {
	b, err := json.Marshal(x)
	if err != nil {
		return "err"
	}
	return string(b)
}
func %[7]s(data string, into any) string {
	if err := json.Unmarshal([]byte(data), into); err != nil {
		return "err:" + err.Error()
	}
	b, _ := json.Marshal(into)
	return string(b)
}

type Hm%[1]sw struct{ pad int }

func (h Hm%[1]sw) Show(n int, x any) string { return strconv.Itoa(n+h.pad) + Desc%[1]sw(reflect.TypeOf(x), 0) }
func (h *Hm%[1]sw) ShowP(x any) string       { return Desc%[1]sw(reflect.TypeOf(x), 0) }

type Di%[1]sw interface{ Describe() string }
`, mk, H("one"), H("second"), H("chain"), H("var"), H("json"), H("unjson"))

			// the flows selected for this instance
			n := 5 + f.P[0]%6
			start := (f.P[1] * 3) % len(reflFlows)
			for k := 0; k < n; k++ {
				flow := reflFlows[(start+k*(1+f.P[2]%3))%len(reflFlows)]
				ty := fmt.Sprintf("Rt%sw%d", mk, k)
				fa, fb, fc := fmt.Sprintf("Fa%sw%d", mk, k), fmt.Sprintf("Fb%sw%d", mk, k), fmt.Sprintf("fc%sw%d", mk, k)
				p.Names = append(p.Names, NameInfo{Name: ty, Kind: "type", Exported: true, Pkg: p.curPkg, Feat: "reflect:" + flow, MayRemain: true})
				p.Features["reflflow:"+flow] = true
				q := "@Q"
				decl := func(extra string) {
					fmt.Fprintf(&prov, "type %s struct {\n\t%s string `json:\"%s,omitempty\"`\n\t%s int\n\t%s bool\n%s}\n", ty, fa, "", fb, fc, extra)
				}
				val := fmt.Sprintf("%s%s{%s: \"v\", %s: %d}", q, ty, fa, fb, k+1)
				line := func(expr string) { fmt.Fprintf(&use, "emit(\"reflect %s \" + %s)\n", flow, expr) }
				switch flow {
				case "direct":
					decl("")
					line(fmt.Sprintf("%sDesc%sw(reflect.TypeOf(%s), 0)", q, mk, val))
				case "helper1":
					decl("")
					line(fmt.Sprintf("%s%s(%s)", q, H("one"), val))
				case "helper2nd":
					decl("")
					line(fmt.Sprintf("%s%s(%d, %s)", q, H("second"), k, val))
				case "helperchain":
					decl("")
					line(fmt.Sprintf("%s%s(%s)", q, H("chain"), val))
				case "ifacemethod":
					decl("")
					fmt.Fprintf(&prov, "func (r %s) Describe() string { return Desc%sw(reflect.TypeOf(r), 0) }\n", ty, mk)
					fmt.Fprintf(&use, "var di%d %sDi%sw = %s\n", k, q, mk, val)
					line(fmt.Sprintf("di%d.Describe()", k))
				case "pointer":
					decl("")
					line(fmt.Sprintf("%s%s(&%s)", q, H("one"), val))
				case "slice":
					decl("")
					line(fmt.Sprintf("%s%s([]%s%s{%s})", q, H("one"), q, ty, val[len(q)+len(ty):]))
				case "variadic":
					decl("")
					line(fmt.Sprintf("%s%s(1, %s, \"s\")", q, H("var"), val))
				case "funcvalue":
					decl("")
					fmt.Fprintf(&use, "fv%d := %s%s\n", k, q, H("one"))
					line(fmt.Sprintf("fv%d(%s)", k, val))
				case "json":
					decl("")
					line(fmt.Sprintf("%s%s(%s)", q, H("json"), val))
				case "jsonunmarshal":
					decl("")
					fmt.Fprintf(&use, "var ju%d %s%s\n", k, q, ty)
					line(fmt.Sprintf("%s%s(`{\"%s\":\"in\",\"%s\":7}`, &ju%d)", q, H("unjson"), fa, fb, k))
				case "methodexpr":
					decl("")
					line(fmt.Sprintf("%sHm%sw.Show(%sHm%sw{}, %d, %s)", q, mk, q, mk, k, val))
					line(fmt.Sprintf("(*%sHm%sw).ShowP(&%sHm%sw{}, &%s)", q, mk, q, mk, val))
				case "boundmethod":
					decl("")
					fmt.Fprintf(&use, "bm%d := %sHm%sw{}.Show\n", k, q, mk)
					line(fmt.Sprintf("bm%d(%d, %s)", k, k, val))
				case "fieldbyname":
					decl("")
					fmt.Fprintf(&use, "fb%d, ok%d := reflect.TypeOf(%s).FieldByName(%q)\n", k, k, val, fb)
					line(fmt.Sprintf("fb%d.Name + strconv.FormatBool(ok%d)", k, k))
				case "nested":
					inner := fmt.Sprintf("Ri%sw%d", mk, k)
					fmt.Fprintf(&prov, "type %s struct {\n\tIn%sw%d string\n\tdeep%sw%d []int\n}\n", inner, mk, k, mk, k)
					decl(fmt.Sprintf("\tNest %s\n\tPtr *%s\n\tList []%s\n\tM map[string]%s\n\tArr [2]%s\n", inner, inner, inner, inner, inner))
					line(fmt.Sprintf("%s%s(%s)", q, H("one"), val))
				case "generic":
					decl("")
					fmt.Fprintf(&prov, "type Rg%sw%d[T any] struct {\n\tGf%sw%d T\n\tgs%sw%d []T\n}\n", mk, k, mk, k, mk, k)
					line(fmt.Sprintf("%s%s(%sRg%sw%d[%s%s]{})", q, H("one"), q, mk, k, q, ty))
				case "alias":
					decl("")
					fmt.Fprintf(&prov, "type Ra%sw%d = %s\n", mk, k, ty)
					line(fmt.Sprintf("%s%s(%sRa%sw%d{%s: \"al\"})", q, H("one"), q, mk, k, fa))
				case "mapvalue":
					decl("")
					line(fmt.Sprintf("%s%s(map[string]%s%s{\"k\": %s})", q, H("json"), q, ty, val[len(q)+len(ty):]))
				case "anon":
					decl("")
					line(fmt.Sprintf("%s%s(struct {\n\tAn%sw%d int\n\tIn %s%s\n}{})", q, H("one"), mk, k, q, ty))
				case "userhelper":
					decl("")
					fmt.Fprintf(&useDecl, "func uh%sw%d(pad string, x any) string { return pad + %s%s(x) }\n", mk, k, q, H("one"))
					line(fmt.Sprintf("uh%sw%d(\"u\", %s)", mk, k, val))
				}
			}
			useDecl.WriteString("var _ = reflect.TypeOf\nvar _ = json.Marshal\n")
			p.pendingUseDecl = useDecl.String()
			return prov.String(), use.String()
		},
	})
}
