// Package rc wraps rapid.Check with the bookkeeping every check needs:
// counting completed cases, turning infrastructure panics into "inconclusive"
// instead of property failures, and flushing statistics.
package rc

import (
	"flag"
	"fmt"
	"os"
	"strconv"
	"sync/atomic"
	"testing"

	"pgregory.net/rapid"
	"verif/stats"
)

// Infra is panicked with (or returned through Abort) when the machinery, not
// garble, failed.
type Infra struct{ Msg string }

func (e Infra) Error() string { return "infra: " + e.Msg }

// Abort stops the current case as an infrastructure failure.
func Abort(format string, a ...any) { panic(Infra{fmt.Sprintf(format, a...)}) }

var aborted atomic.Bool

type infraLike interface{ Error() string }

// Check runs prop under rapid.
func Check(t *testing.T, prop func(*rapid.T)) {
	stats.SetTest(t.Name())
	if f := flag.Lookup("rapid.checks"); f != nil {
		if n, err := strconv.Atoi(f.Value.String()); err == nil {
			stats.SetRequested(n)
		}
	}
	defer func() {
		if aborted.Load() {
			t.Errorf("aborted: infrastructure failure (see stats)")
			stats.Flush()
			return
		}
		if !t.Failed() {
			stats.Passed()
		} else {
			stats.Flush()
		}
	}()
	rapid.Check(t, func(rt *rapid.T) {
		if aborted.Load() {
			return
		}
		defer func() {
			if r := recover(); r != nil {
				if isInfra(r) {
					aborted.Store(true)
					stats.Infra("%v", r)
					return
				}
				panic(r)
			}
		}()
		prop(rt)
		stats.Completed()
	})
}

func isInfra(r any) bool {
	switch e := r.(type) {
	case Infra:
		return true
	case error:
		// h.InfraError is recognised by its prefix to avoid an import cycle
		return len(e.Error()) >= 6 && e.Error()[:6] == "infra:"
	}
	return false
}

// Fixed runs a non-rapid test body with the same bookkeeping.
func Fixed(t *testing.T, body func()) {
	stats.SetTest(t.Name())
	defer func() {
		if r := recover(); r != nil {
			if isInfra(r) {
				stats.Infra("%v", r)
				t.Errorf("infrastructure failure: %v", r)
				return
			}
			stats.Flush()
			panic(r)
		}
		if !t.Failed() {
			stats.Passed()
		} else {
			stats.Flush()
		}
	}()
	body()
}

// Env helpers shared by tests.
func Thorough() bool { return os.Getenv("VERIF_TIER") == "thorough" }

func Pick[T any](q, th T) T {
	if Thorough() {
		return th
	}
	return q
}

// ReplayCase returns the path given to a replay run ("" otherwise).
func ReplayCase() string { return os.Getenv("VERIF_REPLAY_CASE") }
