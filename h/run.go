package h

import (
	"bytes"
	"context"
	"errors"
	"os"
	"os/exec"
	"strings"
	"syscall"
	"time"
)

// Cmd describes one child process.
type Cmd struct {
	Dir     string
	Env     []string // complete environment
	Args    []string // argv, Args[0] resolved through PATH of Env
	Stdin   string
	Timeout time.Duration // 0 = 10 minutes
}

// Result is what a finished child left behind.
type Result struct {
	Args     []string
	Exit     int // -1 when killed by a signal or not started
	Stdout   string
	Stderr   string
	Dur      time.Duration
	TimedOut bool
	Err      error // start errors only
}

func (r Result) OK() bool { return r.Err == nil && !r.TimedOut && r.Exit == 0 }

// Brief renders the result for logs and replay files.
func (r Result) Brief() string {
	var b strings.Builder
	b.WriteString("$ " + strings.Join(r.Args, " ") + "\n")
	if r.Err != nil {
		b.WriteString("start error: " + r.Err.Error() + "\n")
	}
	if r.TimedOut {
		b.WriteString("TIMED OUT\n")
	}
	b.WriteString("exit=" + itoa(r.Exit) + " dur=" + r.Dur.Round(time.Millisecond).String() + "\n")
	b.WriteString("--- stdout\n" + Clip(r.Stdout, 4000) + "\n--- stderr\n" + Clip(r.Stderr, 6000) + "\n")
	return b.String()
}

func itoa(n int) string {
	if n < 0 {
		return "-" + itoa(-n)
	}
	if n < 10 {
		return string(rune('0' + n))
	}
	return itoa(n/10) + string(rune('0'+n%10))
}

// Clip shortens s to at most n bytes, keeping head and tail.
func Clip(s string, n int) string {
	if len(s) <= n {
		return s
	}
	return s[:n/2] + "\n…[" + itoa(len(s)-n) + " bytes elided]…\n" + s[len(s)-n/2:]
}

func lookPath(file string, env []string) string {
	if strings.Contains(file, "/") {
		return file
	}
	for _, kv := range env {
		if p, ok := strings.CutPrefix(kv, "PATH="); ok {
			for _, dir := range strings.Split(p, ":") {
				cand := dir + "/" + file
				if st, err := os.Stat(cand); err == nil && !st.IsDir() && st.Mode()&0o111 != 0 {
					return cand
				}
			}
		}
	}
	return file
}

// Run executes c in its own process group and kills the whole group on timeout.
func Run(c Cmd) Result {
	return RunCtx(context.Background(), c)
}

// RunCtx is Run with an external cancellation (the group is SIGKILLed).
func RunCtx(ctx context.Context, c Cmd) Result {
	timeout := c.Timeout
	if timeout == 0 {
		timeout = 10 * time.Minute
	}
	cmd := exec.Command(lookPath(c.Args[0], c.Env), c.Args[1:]...)
	cmd.Args[0] = c.Args[0]
	cmd.Dir = c.Dir
	cmd.Env = c.Env
	var so, se bytes.Buffer
	cmd.Stdout, cmd.Stderr = &so, &se
	if c.Stdin != "" {
		cmd.Stdin = strings.NewReader(c.Stdin)
	}
	cmd.SysProcAttr = &syscall.SysProcAttr{Setpgid: true}
	// Do not wait for grandchildren holding the pipes after a kill.
	cmd.WaitDelay = 2 * time.Second
	start := time.Now()
	res := Result{Args: c.Args, Exit: -1}
	if err := cmd.Start(); err != nil {
		res.Err = err
		return res
	}
	done := make(chan error, 1)
	go func() { done <- cmd.Wait() }()
	timer := time.NewTimer(timeout)
	defer timer.Stop()
	var err error
	select {
	case err = <-done:
	case <-timer.C:
		res.TimedOut = true
		syscall.Kill(-cmd.Process.Pid, syscall.SIGKILL)
		err = <-done
	case <-ctx.Done():
		syscall.Kill(-cmd.Process.Pid, syscall.SIGKILL)
		err = <-done
	}
	// Make sure no descendant outlives the case.
	syscall.Kill(-cmd.Process.Pid, syscall.SIGKILL)
	res.Dur = time.Since(start)
	res.Stdout, res.Stderr = so.String(), se.String()
	var ee *exec.ExitError
	switch {
	case err == nil:
		res.Exit = 0
	case errors.As(err, &ee):
		res.Exit = ee.ExitCode()
	default:
		if !errors.Is(err, exec.ErrWaitDelay) {
			res.Err = err
		} else if cmd.ProcessState != nil {
			res.Exit = cmd.ProcessState.ExitCode()
		}
	}
	return res
}
