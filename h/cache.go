package h

import (
	"fmt"
	"os"
	"path/filepath"
	"sort"
	"strings"
	"syscall"
	"time"
)

// Probe levels: which part of std a base cache has already compiled.
const (
	LevelRT   = "rt"   // runtime and its dependencies only (println programs)
	LevelStd  = "std"  // fmt, os, strings, strconv, errors, sort, sync, bytes, reflect, encoding/json, time
	LevelTest = "test" // LevelStd + testing
)

// linknamedStd are the std packages garble lists in addition to a build's own
// dependencies (observed at the stub go command, see C20).
var linknamedStd = strings.Fields("arena crypto/fips140 crypto/internal/boring crypto/internal/boring/bcache crypto/internal/fips140 crypto/internal/sysrand crypto/rand crypto/subtle internal/bytealg internal/coverage/cfile internal/cpu internal/godebug internal/poll internal/race internal/reflectlite internal/runtime/atomic internal/runtime/cgroup internal/runtime/maps internal/sync internal/synctest internal/syscall/unix maps net os os/signal plugin reflect runtime runtime/debug runtime/metrics runtime/pprof runtime/secret runtime/trace sync sync/atomic syscall testing/synctest time unique weak")

var probeImports = map[string][]string{
	LevelRT:   nil,
	LevelStd:  {"bytes", "encoding/json", "errors", "fmt", "os", "reflect", "runtime/debug", "sort", "strconv", "strings", "sync", "time", "unicode/utf8", "crypto/sha256", "encoding/hex"},
	LevelTest: {"bytes", "encoding/json", "errors", "fmt", "os", "reflect", "runtime/debug", "sort", "strconv", "strings", "sync", "time", "unicode/utf8", "crypto/sha256", "encoding/hex", "testing"},
}

// probeModulePath picks a module path for the probe that GOGARBLE selects
// (garble refuses to build when nothing matches).
func probeModulePath(gogarble string) string {
	if gogarble == "" || gogarble == "*" {
		return "zqsimple/verifprobe"
	}
	first, _, _ := strings.Cut(gogarble, ",")
	first = strings.NewReplacer("*", "x", "?", "x", "[", "x", "]", "x").Replace(first)
	if !strings.Contains(first, ".") && !strings.Contains(first, "/") {
		// a std-looking pattern: use the default probe path with the next pattern, if any
		if _, rest, ok := strings.Cut(gogarble, ","); ok {
			return probeModulePath(rest)
		}
		return "zqsimple/verifprobe"
	}
	return first + "/verifprobe"
}

func probeModule(dir, level, gogarble string) {
	var b strings.Builder
	b.WriteString("package main\n\n")
	imps := probeImports[level]
	if len(imps) > 0 {
		b.WriteString("import (\n")
		for _, p := range imps {
			fmt.Fprintf(&b, "\t_ %q\n", p)
		}
		b.WriteString(")\n\n")
	}
	b.WriteString("func main() { println(\"probe\") }\n")
	files := map[string]string{
		"go.mod":  "module " + probeModulePath(gogarble) + "\n\ngo 1.26\n",
		"main.go": b.String(),
	}
	if level == LevelTest {
		files["main_test.go"] = "package main\n\nimport \"testing\"\n\nfunc TestProbe(t *testing.T) {}\n"
	}
	WriteFiles(dir, files)
}

// withLock runs f while holding an exclusive flock on path.
func withLock(path string, f func()) {
	Must(os.MkdirAll(filepath.Dir(path), 0o755))
	lf, err := os.OpenFile(path, os.O_CREATE|os.O_RDWR, 0o644)
	Must(err)
	defer lf.Close()
	Must(syscall.Flock(int(lf.Fd()), syscall.LOCK_EX))
	defer syscall.Flock(int(lf.Fd()), syscall.LOCK_UN)
	f()
}

// PlainBase returns a GOCACHE holding the regular (non-garble) build of the
// std packages of level "test", built with garble's fixed flags. It depends
// only on the toolchain and is created on first use.
func PlainBase() string {
	dir := filepath.Join(WorkRoot(), "plainbase2")
	done := filepath.Join(dir, ".done")
	if _, err := os.Stat(done); err == nil {
		return filepath.Join(dir, "gocache")
	}
	withLock(filepath.Join(WorkRoot(), "plainbase.lock"), func() {
		if _, err := os.Stat(done); err == nil {
			return
		}
		RemoveAll(dir)
		box := NewBox(filepath.Join(dir, "box"), "")
		box.GoCache = filepath.Join(dir, "gocache")
		mod := filepath.Join(dir, "probe")
		probeModule(mod, LevelTest, "")
		// The same listing garble performs: std deps plus everything garble links against.
		r := box.Go(mod, nil, "build", "-trimpath", "-buildvcs=false", "-o", filepath.Join(dir, "probe.bin"), ".")
		if !r.OK() {
			panic(Infraf("plain base build failed:\n%s", r.Brief()))
		}
		r = box.Go(mod, nil, "test", "-trimpath", "-buildvcs=false", "-c", "-o", filepath.Join(dir, "probe.test"), ".")
		if !r.OK() {
			panic(Infraf("plain base test build failed:\n%s", r.Brief()))
		}
		// garble also lists (with -export) the packages the runtime reaches through
		// linknames; compile their regular export data once here, so that commands
		// which only list (garble map, garble reverse) find everything cached.
		r = box.Go(mod, nil, append([]string{"list", "-export", "-compiled", "-e", "-deps", "-trimpath", "-buildvcs=false", "-f", "{{.ImportPath}}", "."}, linknamedStd...)...)
		if r.Exit != 0 && !strings.Contains(r.Stderr, "is not in std") && !strings.Contains(r.Stderr, "build constraints exclude") {
			panic(Infraf("plain base listing of linknamed packages failed:\n%s", r.Brief()))
		}
		RemoveAll(box.Root)
		Must(os.WriteFile(done, []byte(time.Now().Format(time.RFC3339)), 0o644))
	})
	return filepath.Join(dir, "gocache")
}

// Base is a warmed pair of caches for one (garble binary, config, level).
type Base struct {
	GoCache     string
	GarbleCache string
}

// ConfigBase returns caches in which the std packages of the given level are
// already built by the given garble binary under cfg. It is an accelerator
// only: every case copies it, nothing reads it in place. Old garble binaries'
// bases are pruned.
func ConfigBase(garbleBin, garbleHash string, cfg Config, level string) Base {
	root := filepath.Join(WorkRoot(), "cfgbase", garbleHash)
	name := StrSHA(cfg.Key() + "|" + level + "|dbg1")
	dir := filepath.Join(root, name)
	base := Base{GoCache: filepath.Join(dir, "gocache"), GarbleCache: filepath.Join(dir, "garblecache")}
	done := filepath.Join(dir, ".done")
	if _, err := os.Stat(done); err == nil {
		now := time.Now()
		os.Chtimes(root, now, now) // mark this garble binary's bases as recently used
		return base
	}
	plain := PlainBase()
	withLock(filepath.Join(WorkRoot(), "cfgbase", garbleHash+"."+name+".lock"), func() {
		if _, err := os.Stat(done); err == nil {
			return
		}
		pruneBases(garbleHash)
		RemoveAll(dir)
		Must(os.MkdirAll(dir, 0o755))
		// Start from a lower level of the same config when present (cheaper).
		src := Base{GoCache: plain}
		if level != LevelRT {
			lower := LevelRT
			if level == LevelTest {
				lower = LevelStd
			}
			ldir := filepath.Join(root, StrSHA(cfg.Key()+"|"+lower+"|dbg1"))
			if _, err := os.Stat(filepath.Join(ldir, ".done")); err == nil {
				src = Base{GoCache: filepath.Join(ldir, "gocache"), GarbleCache: filepath.Join(ldir, "garblecache")}
			}
		}
		CopyTree(src.GoCache, base.GoCache)
		if src.GarbleCache != "" {
			CopyTree(src.GarbleCache, base.GarbleCache)
		} else if lk := anyLinker(root); lk != "" {
			// Reuse an already patched linker of the same garble binary.
			Must(os.MkdirAll(base.GarbleCache, 0o755))
			CopyTree(lk, filepath.Join(base.GarbleCache, "tool"))
		}
		box := NewBox(filepath.Join(dir, "box"), garbleBin)
		box.GoCache, box.GarbleCache = base.GoCache, base.GarbleCache
		mod := filepath.Join(dir, "probe")
		probeModule(mod, level, cfg.GOGARBLE)
		// Built with -debugdir so that the cache also holds the debug artifacts of
		// the std packages: later -debugdir builds then need no forced full rebuild.
		r := box.GarbleX(cfg, mod, []string{"-debugdir=" + filepath.Join(dir, "probe-debugdir")}, nil, "build", "-o", filepath.Join(dir, "probe.bin"), ".")
		if !r.OK() {
			panic(Infraf("config base %s/%s build failed:\n%s", cfg.Key(), level, r.Brief()))
		}
		if level == LevelTest {
			r = box.GarbleX(cfg, mod, []string{"-debugdir=" + filepath.Join(dir, "probe-debugdir")}, nil, "test", "-c", "-o", filepath.Join(dir, "probe.test"), ".")
			if !r.OK() {
				panic(Infraf("config base %s/%s test build failed:\n%s", cfg.Key(), level, r.Brief()))
			}
		}
		RemoveAll(box.Root)
		RemoveAll(mod)
		RemoveAll(filepath.Join(dir, "probe-debugdir"))
		os.Remove(filepath.Join(dir, "probe.bin"))
		os.Remove(filepath.Join(dir, "probe.test"))
		Must(os.WriteFile(filepath.Join(dir, "config.txt"), []byte(cfg.Key()+" "+level+"\n"), 0o644))
		Must(os.WriteFile(done, []byte(time.Now().Format(time.RFC3339)), 0o644))
	})
	return base
}

func anyLinker(root string) string {
	ents, _ := os.ReadDir(root)
	for _, e := range ents {
		tool := filepath.Join(root, e.Name(), "garblecache", "tool")
		if _, err := os.Stat(filepath.Join(root, e.Name(), ".done")); err != nil {
			continue
		}
		if _, err := os.Stat(filepath.Join(tool, "link")); err == nil {
			return tool
		}
	}
	return ""
}

// pruneBases keeps the bases of the current garble binary and of the most
// recently used other one; everything older is removed.
func pruneBases(keep string) {
	root := filepath.Join(WorkRoot(), "cfgbase")
	ents, _ := os.ReadDir(root)
	type ent struct {
		name string
		mod  time.Time
	}
	var dirs []ent
	for _, e := range ents {
		if !e.IsDir() || e.Name() == keep {
			continue
		}
		info, err := e.Info()
		if err != nil {
			continue
		}
		dirs = append(dirs, ent{e.Name(), info.ModTime()})
	}
	sort.Slice(dirs, func(i, j int) bool { return dirs[i].mod.After(dirs[j].mod) })
	for i, d := range dirs {
		if i < 3 {
			continue // keep the three most recently used other binaries' bases
		}
		RemoveAll(filepath.Join(root, d.name))
		matches, _ := filepath.Glob(filepath.Join(root, d.name+".*.lock"))
		for _, m := range matches {
			os.Remove(m)
		}
	}
}

// FillBox gives the box private copies of a config base.
func (b *Box) FillBox(base Base) {
	CopyTree(base.GoCache, b.GoCache)
	CopyTree(base.GarbleCache, b.GarbleCache)
}

// NewCaseBox is the usual way for a case to get a ready box: a fresh
// directory under parent with private copies of the (cfg, level) base.
func NewCaseBox(parent string, cfg Config, level string) *Box {
	bin, hash := GarbleBinary()
	root, err := os.MkdirTemp(parent, "case-")
	Must(err)
	b := NewBox(root, bin)
	b.FillBox(ConfigBase(bin, hash, cfg, level))
	return b
}

// NewPlainCaseBox gives a case a box whose GOCACHE is a private copy of the
// plain base and whose GARBLE_CACHE is empty: enough for commands that only
// list and type-check (garble map, garble reverse).
func NewPlainCaseBox(parent string) *Box {
	bin, _ := GarbleBinary()
	root, err := os.MkdirTemp(parent, "case-")
	Must(err)
	b := NewBox(root, bin)
	CopyTree(PlainBase(), b.GoCache)
	Must(os.MkdirAll(b.GarbleCache, 0o755))
	return b
}
