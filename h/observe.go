package h

import (
	"bytes"
	"debug/elf"
	"os"
	"strings"
)

// ScanBinary reports which of the needles occur verbatim in the file.
func ScanBinary(path string, needles []string) map[string]bool {
	data, err := os.ReadFile(path)
	Must(err)
	out := map[string]bool{}
	for _, n := range needles {
		if n == "" {
			continue
		}
		out[n] = bytes.Contains(data, []byte(n))
	}
	return out
}

// Section describes one ELF section.
type Section struct {
	Name string
	Size uint64
}

// ELFSections lists the sections of an ELF binary.
func ELFSections(path string) []Section {
	f, err := elf.Open(path)
	Must(err)
	defer f.Close()
	var out []Section
	for _, s := range f.Sections {
		out = append(out, Section{s.Name, s.Size})
	}
	return out
}

// ELFSymbolCount returns the number of entries in the static symbol table.
func ELFSymbolCount(path string) int {
	f, err := elf.Open(path)
	Must(err)
	defer f.Close()
	syms, err := f.Symbols()
	if err != nil {
		return 0
	}
	return len(syms)
}

// GoVersionM runs `go version -m` on a binary.
func (b *Box) GoVersionM(bin string) Result {
	return b.Go("/", nil, "version", "-m", bin)
}

// GoBuildID runs `go tool buildid` on a binary.
func (b *Box) GoBuildID(bin string) string {
	r := b.Go("/", nil, "tool", "buildid", bin)
	return strings.TrimSpace(r.Stdout)
}
