// Package h is the shared harness of the garble verification machinery:
// environment, process running, cache layering, garble invocation,
// statistics and replay dumps.
package h

import (
	"crypto/sha256"
	"encoding/hex"
	"fmt"
	"io"
	"os"
	"path/filepath"
	"strconv"
	"strings"
)

const (
	// ToolchainBin holds the go1.26.2 toolchain the repository's own suite uses.
	ToolchainBin = "/root/go/pkg/mod/golang.org/toolchain@v0.0.1-go1.26.2.linux-amd64/bin"
	GoVersion    = "go1.26.2"
	VerifDir     = "/verif"
	RealModCache = "/root/go/pkg/mod"
)

// RepoDir is the garble source tree the checks rebuild from: /repo. The
// VERIF_REPO override exists only so that a development run against a scratch
// copy (e.g. with a seeded patch) can proceed while /repo stays untouched;
// registered commands never set it.
var RepoDir = func() string {
	if d := os.Getenv("VERIF_REPO"); d != "" {
		return d
	}
	return "/repo"
}()

// WorkRoot is where persistent accelerators live (untracked).
func WorkRoot() string { return filepath.Join(VerifDir, ".work") }

// Seed returns VERIF_SEED (default 1).
func Seed() int64 {
	if s := os.Getenv("VERIF_SEED"); s != "" {
		if n, err := strconv.ParseInt(s, 10, 64); err == nil {
			return n
		}
	}
	return 1
}

// Tier returns "quick" or "thorough" from VERIF_TIER.
func Tier() string {
	if os.Getenv("VERIF_TIER") == "thorough" {
		return "thorough"
	}
	return "quick"
}

// Thorough reports whether the thorough tier is running.
func Thorough() bool { return Tier() == "thorough" }

// Pick returns q in the quick tier and t in the thorough tier.
func Pick[T any](q, t T) T {
	if Thorough() {
		return t
	}
	return q
}

// CleanEnv is the base environment of every child process: nothing is
// inherited from the caller besides what is listed here.
func CleanEnv(extra ...string) []string {
	env := []string{
		"PATH=" + ToolchainBin + ":/usr/local/bin:/usr/bin:/bin",
		"GOTOOLCHAIN=local",
		"GOPROXY=off",
		"GOSUMDB=off",
		"GONOSUMDB=*",
		"GOFLAGS=-mod=mod",
		"GOTELEMETRY=off",
		"LANG=C",
		"LC_ALL=C",
	}
	return MergeEnv(env, extra)
}

// MergeEnv appends extra to env, later values of the same key winning.
func MergeEnv(env, extra []string) []string {
	idx := map[string]int{}
	var out []string
	for _, kv := range append(append([]string{}, env...), extra...) {
		k, _, _ := strings.Cut(kv, "=")
		if i, ok := idx[k]; ok {
			out[i] = kv
			continue
		}
		idx[k] = len(out)
		out = append(out, kv)
	}
	return out
}

// FileSHA returns the hex sha256 of a file ("" on error).
func FileSHA(path string) string {
	f, err := os.Open(path)
	if err != nil {
		return ""
	}
	defer f.Close()
	hh := sha256.New()
	if _, err := io.Copy(hh, f); err != nil {
		return ""
	}
	return hex.EncodeToString(hh.Sum(nil))
}

// StrSHA returns a short hex digest of s.
func StrSHA(s string) string {
	sum := sha256.Sum256([]byte(s))
	return hex.EncodeToString(sum[:8])
}

// Must panics with an infrastructure error.
func Must(err error) {
	if err != nil {
		panic(InfraError{err})
	}
}

// InfraError marks a failure of the machinery itself (never a violation).
type InfraError struct{ Err error }

func (e InfraError) Error() string { return "infra: " + e.Err.Error() }

func Infraf(format string, a ...any) InfraError { return InfraError{fmt.Errorf(format, a...)} }
