package h

import (
	"fmt"
	"os"
	"path/filepath"
	"sort"
	"strings"
	"sync"
	"time"
)

// Config is a garble configuration: everything that is an input of the
// obfuscation besides the source and the toolchain.
type Config struct {
	Literals    bool   `json:"literals,omitempty"`
	Tiny        bool   `json:"tiny,omitempty"`
	Seed        string `json:"seed,omitempty"`     // base64, "" = unseeded
	GOGARBLE    string `json:"gogarble,omitempty"` // "" = garble's default (*)
	ControlFlow bool   `json:"controlflow,omitempty"`
}

// Flags returns garble's own flags (those placed before the command).
func (c Config) Flags() []string {
	var f []string
	if c.Literals {
		f = append(f, "-literals")
	}
	if c.Tiny {
		f = append(f, "-tiny")
	}
	if c.Seed != "" {
		f = append(f, "-seed="+c.Seed)
	}
	return f
}

// Key is a short canonical name of the configuration.
func (c Config) Key() string {
	parts := []string{}
	if c.Literals {
		parts = append(parts, "literals")
	}
	if c.Tiny {
		parts = append(parts, "tiny")
	}
	if c.Seed != "" {
		parts = append(parts, "seed="+c.Seed)
	}
	if c.GOGARBLE != "" {
		parts = append(parts, "GOGARBLE="+c.GOGARBLE)
	}
	if c.ControlFlow {
		parts = append(parts, "ctrlflow")
	}
	if len(parts) == 0 {
		return "default"
	}
	return strings.Join(parts, ",")
}

// Class is Key with the seed value abstracted away (for descriptors).
func (c Config) Class() string {
	d := c
	if d.Seed != "" {
		d.Seed = "S"
	}
	return d.Key()
}

// EnvVars returns the environment part of the configuration.
func (c Config) EnvVars() []string {
	var e []string
	if c.GOGARBLE != "" {
		e = append(e, "GOGARBLE="+c.GOGARBLE)
	}
	if c.ControlFlow {
		e = append(e, "GARBLE_EXPERIMENTAL_CONTROLFLOW=1")
	}
	return e
}

// Box is a private set of directories a case runs in: nothing in it is
// shared with any other case.
type Box struct {
	Root        string
	GoCache     string
	GarbleCache string
	Tmp         string
	Home        string
	ModCache    string // empty directory, see DESIGN.md §2
	GarbleBin   string
	Extra       []string // extra environment
}

// NewBox creates the directory skeleton under root (GoCache and GarbleCache
// are left for the caller to fill, e.g. from a config base).
func NewBox(root, garbleBin string) *Box {
	b := &Box{
		Root:        root,
		GoCache:     filepath.Join(root, "gocache"),
		GarbleCache: filepath.Join(root, "garblecache"),
		Tmp:         filepath.Join(root, "tmp"),
		Home:        filepath.Join(root, "home"),
		ModCache:    filepath.Join(root, "modcache"),
		GarbleBin:   garbleBin,
	}
	for _, d := range []string{b.Tmp, b.Home, b.ModCache} {
		Must(os.MkdirAll(d, 0o755))
	}
	return b
}

// Env is the complete environment for go/garble inside the box.
func (b *Box) Env(cfg Config, extra ...string) []string {
	env := CleanEnv(
		"HOME="+b.Home,
		"GOCACHE="+b.GoCache,
		"GARBLE_CACHE="+b.GarbleCache,
		"TMPDIR="+b.Tmp,
		"GOMODCACHE="+b.ModCache,
		"GOPATH="+filepath.Join(b.Home, "gopath"),
		"CGO_ENABLED=0",
		"GOFLAGS=",
	)
	env = MergeEnv(env, cfg.EnvVars())
	env = MergeEnv(env, b.Extra)
	return MergeEnv(env, extra)
}

// Garble runs `garble <cfg flags> <args...>` in dir.
func (b *Box) Garble(cfg Config, dir string, args ...string) Result {
	return b.GarbleX(cfg, dir, nil, nil, args...)
}

// GarbleX is Garble with extra garble flags (before the command) and extra env.
func (b *Box) GarbleX(cfg Config, dir string, garbleFlags, env []string, args ...string) Result {
	argv := append([]string{b.GarbleBin}, cfg.Flags()...)
	argv = append(argv, garbleFlags...)
	argv = append(argv, args...)
	return Run(Cmd{Dir: dir, Env: b.Env(cfg, env...), Args: argv, Timeout: 15 * time.Minute})
}

// Go runs the plain go command in dir with the box's environment.
func (b *Box) Go(dir string, env []string, args ...string) Result {
	return Run(Cmd{Dir: dir, Env: b.Env(Config{}, env...), Args: append([]string{"go"}, args...), Timeout: 15 * time.Minute})
}

// ---------------------------------------------------------------------------
// building garble itself

var (
	garbleOnce sync.Once
	garbleBin  string
	garbleHash string
)

// GarbleBinary returns the garble binary built from /repo's working tree for
// this invocation: the driver builds it once and passes the path through
// VERIF_GARBLE; a test process run by hand builds its own.
func GarbleBinary() (path, hash string) {
	garbleOnce.Do(func() {
		if p := os.Getenv("VERIF_GARBLE"); p != "" {
			garbleBin = p
		} else {
			dir, err := os.MkdirTemp("", "verif-garble-")
			Must(err)
			garbleBin = BuildGarble(dir)
		}
		garbleHash = FileSHA(garbleBin)[:16]
	})
	return garbleBin, garbleHash
}

// BuildGarble compiles /repo's current working tree into dir/garble.
func BuildGarble(dir string) string {
	out := filepath.Join(dir, "garble")
	env := CleanEnv(
		"HOME="+os.Getenv("HOME"),
		"GOFLAGS=-mod=readonly",
		"CGO_ENABLED=0",
	)
	if gc := os.Getenv("VERIF_HOST_GOCACHE"); gc != "" {
		env = MergeEnv(env, []string{"GOCACHE=" + gc})
	}
	r := Run(Cmd{Dir: RepoDir, Env: env, Args: []string{"go", "build", "-trimpath", "-buildvcs=false", "-o", out, "."}, Timeout: 10 * time.Minute})
	if !r.OK() {
		panic(Infraf("building garble from %s failed:\n%s", RepoDir, r.Brief()))
	}
	return out
}

// ---------------------------------------------------------------------------
// small helpers over modules on disk

// WriteFiles writes files (relative path → content) under dir.
func WriteFiles(dir string, files map[string]string) {
	names := make([]string, 0, len(files))
	for n := range files {
		names = append(names, n)
	}
	sort.Strings(names)
	for _, n := range names {
		p := filepath.Join(dir, n)
		Must(os.MkdirAll(filepath.Dir(p), 0o755))
		Must(os.WriteFile(p, []byte(files[n]), 0o644))
	}
}

// CopyTree copies src to dst (dst must not exist) with cp -r.
func CopyTree(src, dst string) {
	Must(os.MkdirAll(filepath.Dir(dst), 0o755))
	r := Run(Cmd{Env: CleanEnv(), Args: []string{"cp", "-r", src, dst}, Timeout: 10 * time.Minute})
	if !r.OK() {
		panic(Infraf("cp -r %s %s: %s", src, dst, r.Brief()))
	}
}

// RemoveAll removes a tree, making read-only directories writable first.
func RemoveAll(dir string) {
	if dir == "" || dir == "/" {
		return
	}
	if err := os.RemoveAll(dir); err != nil {
		filepath.Walk(dir, func(p string, info os.FileInfo, err error) error {
			if err == nil && info.IsDir() {
				os.Chmod(p, 0o755)
			}
			return nil
		})
		os.RemoveAll(dir)
	}
}

func fmtDur(d time.Duration) string { return fmt.Sprintf("%.1fs", d.Seconds()) }
