package h

import (
	"fmt"
	"go/ast"
	"go/parser"
	"go/token"
	"os"
	"path/filepath"
	"sort"
	"strconv"
	"strings"
)

// Renamed is one declared identifier and the spelling the build gave it.
type Renamed struct {
	Key  string // e.g. "pkgpath.T", "pkgpath.T.field", "pkgpath.T.method", "pkgpath.func", "pkgpath.var"
	Kind string // func | method | type | field | ifacemethod | var | const | typeparam | pkgname
	Orig string
	New  string
	Pos  string // "relative/file.go:offset" of the declaring identifier in the original source
	Pkg  string // import path
}

// NameMap is what a -debugdir dump says about one build.
type NameMap struct {
	Decls   []Renamed
	ByKey   map[string]Renamed
	ByPos   map[string]string // every paired identifier (declarations and references in declarations' types)
	Imports map[string]string // original import path -> garbled import path (from import specs)
	PkgName map[string]string // import path -> garbled package name
}

// ExtractNames pairs the original sources under srcDir with the garbled
// sources of a -debugdir dump, declaration by declaration. Only the
// declaration structure is walked (names, receivers, signatures, type
// expressions), never function bodies or initialiser values, so rewritten
// literals and inserted position comments cannot disturb the pairing.
// pkgs maps import paths to directories relative to srcDir.
func ExtractNames(srcDir, debugDir string, pkgs map[string]string) (*NameMap, error) {
	nm := &NameMap{ByKey: map[string]Renamed{}, ByPos: map[string]string{}, Imports: map[string]string{}, PkgName: map[string]string{}}
	var paths []string
	for p := range pkgs {
		paths = append(paths, p)
	}
	sort.Strings(paths)
	for _, ipath := range paths {
		rel := pkgs[ipath]
		odir := filepath.Join(srcDir, rel)
		gdir := filepath.Join(debugDir, "garbled", ipath)
		ents, err := os.ReadDir(odir)
		if err != nil {
			return nil, err
		}
		for _, e := range ents {
			name := e.Name()
			if e.IsDir() || !strings.HasSuffix(name, ".go") || strings.HasSuffix(name, "_test.go") {
				continue
			}
			gfile := filepath.Join(gdir, name)
			if _, err := os.Stat(gfile); err != nil {
				continue // excluded by build constraints
			}
			fset := token.NewFileSet()
			of, err := parser.ParseFile(fset, filepath.Join(odir, name), nil, parser.SkipObjectResolution)
			if err != nil {
				return nil, err
			}
			gf, err := parser.ParseFile(fset, gfile, nil, parser.SkipObjectResolution)
			if err != nil {
				return nil, fmt.Errorf("garbled file does not parse: %v", err)
			}
			if err := nm.pairFile(fset, ipath, filepath.Join(rel, name), of, gf); err != nil {
				return nil, fmt.Errorf("%s/%s: %v", ipath, name, err)
			}
		}
	}
	return nm, nil
}

func (nm *NameMap) add(r Renamed) {
	nm.Decls = append(nm.Decls, r)
	nm.ByKey[r.Key] = r
}

func identsOf(nodes ...ast.Node) []*ast.Ident {
	var out []*ast.Ident
	for _, n := range nodes {
		if n == nil || isNilNode(n) {
			continue
		}
		ast.Inspect(n, func(x ast.Node) bool {
			if id, ok := x.(*ast.Ident); ok {
				out = append(out, id)
			}
			return true
		})
	}
	return out
}

func isNilNode(n ast.Node) bool {
	switch v := n.(type) {
	case *ast.FieldList:
		return v == nil
	case *ast.Ident:
		return v == nil
	case ast.Expr:
		return v == nil
	}
	return false
}

func (nm *NameMap) pairFile(fset *token.FileSet, ipath, relFile string, of, gf *ast.File) error {
	nm.PkgName[ipath] = gf.Name.Name
	pos := func(id *ast.Ident) string {
		return relFile + ":" + strconv.Itoa(fset.Position(id.Pos()).Offset)
	}
	pairIdents := func(o, g []*ast.Ident, what string) error {
		if len(o) != len(g) {
			return fmt.Errorf("%s: %d identifiers in the original, %d in the garbled source", what, len(o), len(g))
		}
		for i := range o {
			nm.ByPos[pos(o[i])] = g[i].Name
		}
		return nil
	}
	// Import declarations are paired separately: garble may merge them and
	// adds `_ "unsafe"` to one file of package main.
	importSpecs := func(f *ast.File) (specs []*ast.ImportSpec, rest []ast.Decl) {
		for _, d := range f.Decls {
			if gd, ok := d.(*ast.GenDecl); ok && gd.Tok == token.IMPORT {
				for _, sp := range gd.Specs {
					specs = append(specs, sp.(*ast.ImportSpec))
				}
				continue
			}
			rest = append(rest, d)
		}
		return
	}
	oImps, oDecls := importSpecs(of)
	gImps, gDecls := importSpecs(gf)
	j := 0
	for _, osp := range oImps {
		op, _ := strconv.Unquote(osp.Path.Value)
		for j < len(gImps) {
			gp, _ := strconv.Unquote(gImps[j].Path.Value)
			if gp == "unsafe" && op != "unsafe" {
				j++ // added by garble
				continue
			}
			nm.Imports[op] = gp
			j++
			break
		}
	}
	if len(gDecls) < len(oDecls) {
		return fmt.Errorf("garbled file has fewer declarations (%d) than the original (%d)", len(gDecls), len(oDecls))
	}
	for i, od := range oDecls {
		gd := gDecls[i]
		switch o := od.(type) {
		case *ast.FuncDecl:
			g, ok := gd.(*ast.FuncDecl)
			if !ok {
				return fmt.Errorf("declaration %d: kinds differ", i)
			}
			if g.Name.Name == "_" && o.Name.Name != "_" {
				continue // moved away by control-flow obfuscation
			}
			var or, gr ast.Node
			if o.Recv != nil {
				or, gr = o.Recv, g.Recv
			}
			if err := pairIdents(identsOf(or, o.Name, o.Type), identsOf(gr, g.Name, g.Type), "func "+o.Name.Name); err != nil {
				return err
			}
			if o.Recv == nil {
				nm.add(Renamed{Key: ipath + "." + o.Name.Name, Kind: "func", Orig: o.Name.Name, New: g.Name.Name, Pos: pos(o.Name), Pkg: ipath})
			} else {
				nm.add(Renamed{Key: ipath + "." + recvName(o.Recv) + "." + o.Name.Name, Kind: "method", Orig: o.Name.Name, New: g.Name.Name, Pos: pos(o.Name), Pkg: ipath})
			}
		case *ast.GenDecl:
			g, ok := gd.(*ast.GenDecl)
			if !ok || g.Tok != o.Tok || len(g.Specs) != len(o.Specs) {
				return fmt.Errorf("declaration %d: kinds differ", i)
			}
			for j, os := range o.Specs {
				switch osp := os.(type) {
				case *ast.ImportSpec:
					gsp := g.Specs[j].(*ast.ImportSpec)
					op, _ := strconv.Unquote(osp.Path.Value)
					gp, _ := strconv.Unquote(gsp.Path.Value)
					nm.Imports[op] = gp
				case *ast.TypeSpec:
					gsp, ok := g.Specs[j].(*ast.TypeSpec)
					if !ok {
						return fmt.Errorf("type spec %d: kinds differ", j)
					}
					var otp, gtp ast.Node
					if osp.TypeParams != nil {
						otp, gtp = osp.TypeParams, gsp.TypeParams
					}
					if err := pairIdents(identsOf(osp.Name, otp, osp.Type), identsOf(gsp.Name, gtp, gsp.Type), "type "+osp.Name.Name); err != nil {
						return err
					}
					nm.add(Renamed{Key: ipath + "." + osp.Name.Name, Kind: "type", Orig: osp.Name.Name, New: gsp.Name.Name, Pos: pos(osp.Name), Pkg: ipath})
					nm.pairMembers(ipath, osp.Name.Name, osp.Type, gsp.Type, pos)
				case *ast.ValueSpec:
					gsp, ok := g.Specs[j].(*ast.ValueSpec)
					if !ok || len(gsp.Names) != len(osp.Names) {
						return fmt.Errorf("value spec %d: kinds differ", j)
					}
					kind := "var"
					if o.Tok == token.CONST {
						kind = "const"
					}
					for k, n := range osp.Names {
						nm.ByPos[pos(n)] = gsp.Names[k].Name
						if n.Name != "_" {
							nm.add(Renamed{Key: ipath + "." + n.Name, Kind: kind, Orig: n.Name, New: gsp.Names[k].Name, Pos: pos(n), Pkg: ipath})
						}
					}
					if osp.Type != nil && gsp.Type != nil {
						oi, gi := identsOf(osp.Type), identsOf(gsp.Type)
						if len(oi) == len(gi) {
							for k := range oi {
								nm.ByPos[pos(oi[k])] = gi[k].Name
							}
						}
						nm.pairMembers(ipath, "var:"+osp.Names[0].Name, osp.Type, gsp.Type, pos)
					}
				}
			}
		}
	}
	return nil
}

func recvName(fl *ast.FieldList) string {
	if fl == nil || len(fl.List) == 0 {
		return ""
	}
	t := fl.List[0].Type
	for {
		switch v := t.(type) {
		case *ast.StarExpr:
			t = v.X
		case *ast.ParenExpr:
			t = v.X
		case *ast.IndexExpr:
			t = v.X
		case *ast.IndexListExpr:
			t = v.X
		case *ast.Ident:
			return v.Name
		default:
			return "?"
		}
	}
}

// pairMembers records struct fields and interface methods declared directly
// in a type expression (recursively through nested anonymous structs).
func (nm *NameMap) pairMembers(ipath, owner string, ot, gt ast.Expr, pos func(*ast.Ident) string) {
	switch o := ot.(type) {
	case *ast.StructType:
		g, ok := gt.(*ast.StructType)
		if !ok || len(g.Fields.List) != len(o.Fields.List) {
			return
		}
		for i, of := range o.Fields.List {
			gf := g.Fields.List[i]
			for k, n := range of.Names {
				if k < len(gf.Names) {
					nm.add(Renamed{Key: ipath + "." + owner + "." + n.Name, Kind: "field", Orig: n.Name, New: gf.Names[k].Name, Pos: pos(n), Pkg: ipath})
				}
			}
			if len(of.Names) > 0 {
				nm.pairMembers(ipath, owner+"."+of.Names[0].Name, of.Type, gf.Type, pos)
			}
		}
	case *ast.InterfaceType:
		g, ok := gt.(*ast.InterfaceType)
		if !ok || len(g.Methods.List) != len(o.Methods.List) {
			return
		}
		for i, om := range o.Methods.List {
			gm := g.Methods.List[i]
			for k, n := range om.Names {
				if k < len(gm.Names) {
					nm.add(Renamed{Key: ipath + "." + owner + "." + n.Name, Kind: "ifacemethod", Orig: n.Name, New: gm.Names[k].Name, Pos: pos(n), Pkg: ipath})
				}
			}
		}
	case *ast.StarExpr:
		if g, ok := gt.(*ast.StarExpr); ok {
			nm.pairMembers(ipath, owner, o.X, g.X, pos)
		}
	case *ast.ArrayType:
		if g, ok := gt.(*ast.ArrayType); ok {
			nm.pairMembers(ipath, owner, o.Elt, g.Elt, pos)
		}
	case *ast.MapType:
		if g, ok := gt.(*ast.MapType); ok {
			nm.pairMembers(ipath, owner, o.Value, g.Value, pos)
		}
	}
}
