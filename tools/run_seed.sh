#!/bin/bash
# run_seed.sh <seed-name> <property> [tier]: applies a seeded patch to /repo, runs the check, reverts.
cd /verif
name=$1; prop=$2; tier=${3:-quick}
git -C /repo apply /verif/seeded/$name/patch.diff || { echo "patch does not apply"; exit 3; }
./check $prop $tier > /tmp/seedrun-$name.out 2>&1
code=$?
git -C /repo checkout -- .
echo "seed $name: check $prop exit=$code"
grep -m3 "VIOLATION\|key=" /tmp/seedrun-$name.out
