#!/bin/bash
# run_seed.sh <seed-name> <property> [tier]
# Runs a check against a seeded defect. Default: apply the patch to /repo, run, revert (the
# procedure of record). With SEED_COPY=1 the patch is applied to a scratch copy of /repo's
# HEAD instead (VERIF_REPO), so that /repo stays free for other runs.
cd /verif
name=$1; prop=$2; tier=${3:-quick}
if [ -n "${SEED_COPY:-}" ]; then
  copy=/tmp/seedrepo-$name; rm -rf $copy; mkdir -p $copy
  git -C /repo archive HEAD | tar -x -C $copy
  (cd $copy && git init -q . && git apply /verif/seeded/$name/patch.diff) || { echo "patch does not apply"; exit 3; }
  VERIF_EVIDENCE_DIR=/tmp/seed-evidence VERIF_REPO=$copy ./check $prop $tier > /tmp/seedrun-$name.out 2>&1; code=$?
  rm -rf $copy
else
  git -C /repo apply /verif/seeded/$name/patch.diff || { echo "patch does not apply"; exit 3; }
  ./check $prop $tier > /tmp/seedrun-$name.out 2>&1; code=$?
  git -C /repo checkout -- .
fi
echo "seed $name: check $prop exit=$code"
grep -m3 "VIOLATION\|key=" /tmp/seedrun-$name.out
