#!/bin/bash
# finalpass.sh: setup, then the quick tier of every registered check against /repo itself,
# sequentially, with the default seed: this is what writes the committed evidence files.
cd /verif
unset VERIF_REPO VERIF_SEED
echo "setup start $(date +%T)"
./check setup > /tmp/final-setup.out 2>&1; echo "setup exit=$? $(date +%T)"
for id in ${@:-C16 C20 C05 C10 C09 C02 C01 C04 C11 C03 C13 C12 C15 C14 C08 C19 C07 C06 C18 C17}; do
  start=$(date +%s)
  ./check $id quick > /tmp/final-$id.out 2>&1
  echo "$id exit=$? $(( $(date +%s) - start ))s $(grep -c '^KNOWN-FINDING' /tmp/final-$id.out) known; $(grep -m1 'VIOLATION\|INFRA' /tmp/final-$id.out | cut -c1-160)"
done
echo "done $(date +%T)"
