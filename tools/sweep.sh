#!/bin/bash
# sweep.sh <VERIF_SEED> [ids...]: runs the quick tier of every check on a clean copy of /repo's HEAD
# (so that /repo stays free) and reports exit codes. Development aid for false-alarm hunting.
cd /verif
seed=$1; shift
ids=${@:-C16 C20 C05 C01 C02 C09 C10 C04 C11 C03 C13 C12 C15 C14 C08 C19 C07 C06 C18 C17}
rm -rf /tmp/sweeprepo && mkdir -p /tmp/sweeprepo && git -C /repo archive HEAD | tar -x -C /tmp/sweeprepo
for id in $ids; do
  start=$(date +%s)
  VERIF_REPO=/tmp/sweeprepo VERIF_SEED=$seed ./check $id quick > /tmp/sweep-$seed-$id.out 2>&1
  code=$?
  echo "seed=$seed $id exit=$code $(( $(date +%s) - start ))s $(grep -c '^KNOWN-FINDING' /tmp/sweep-$seed-$id.out) known; $(grep -m1 'VIOLATION\|INFRA' /tmp/sweep-$seed-$id.out | cut -c1-200)"
done
