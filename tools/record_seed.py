#!/usr/bin/env python3
"""record_seed.py <seed-name> <property> <detected: yes|no> <check command> <observed key/message>
Writes /verif/seeded/<seed-name>/meta.json from the sub-agent's meta and the confirmation run."""
import json, sys, os
name, prop, detected, cmd, observed = sys.argv[1:6]
d = f"/verif/seeded/{name}"
agent = {}
try: agent = json.load(open(f"{d}/agent_meta.json"))
except Exception as e: agent = {"error": str(e)}
confirm = {}
try: confirm = json.load(open(f"{d}/confirm.json"))
except Exception as e: confirm = {"error": str(e)}
meta = {
  "property": prop,
  "summary": agent.get("summary", ""),
  "needs_to_manifest": agent.get("needs_to_manifest", ""),
  "why_tests_miss_it": agent.get("why_tests_miss_it", ""),
  "confirmation": {
     "what_was_run": "tools/confirm_seed.sh in the sub-agent's scratch worktree: go build; the pinned suite (go test -vet=off -count=1 ./...); demo/run_demo.sh on the patched tree and on a clean export of the same commit",
     "garble_builds": confirm.get("build_exit") == 0,
     "suite_failures_with_patch": confirm.get("suite_failures", ""),
     "suite_note": "TestScript/atomic is the baseline's known-flaky script; TestScript/implement uses the host-global /tmp/test and was re-run alone when other jobs' leftovers made it fail",
     "demo_exit_with_patch": confirm.get("demo_exit_with_patch"),
     "demo_exit_without_patch": confirm.get("demo_exit_without_patch"),
  },
  "check_result": {"applied_to": os.environ.get("APPLIED_TO", "/repo (git apply, reverted afterwards)"), "command": cmd, "detected": detected == "yes", "observed": observed},
}
json.dump(meta, open(f"{d}/meta.json", "w"), indent=1)
print("wrote", f"{d}/meta.json")
