#!/bin/bash
# confirm_seed.sh <agent-id> <seed-name>
# Confirms a seeded defect produced by a sub-agent in its scratch worktree
# /tmp/wt-<agent-id> (patch applied there, uncommitted): garble builds, the
# pinned suite passes, the demonstration fails with the patch and passes
# without it. Archives it as /verif/seeded/<seed-name>/.
set -u
ID=$1; NAME=$2
WT=/tmp/wt-$ID; OUT=/tmp/agent-$ID/out; DST=/verif/seeded/$NAME
export PATH=/root/go/pkg/mod/golang.org/toolchain@v0.0.1-go1.26.2.linux-amd64/bin:$PATH
export GOTOOLCHAIN=local GOFLAGS=-mod=mod GOPROXY=off
mkdir -p $DST && cp -r $OUT/patch.diff $OUT/demo $DST/ 2>/dev/null; cp $OUT/meta.json $DST/agent_meta.json 2>/dev/null
LOG=/tmp/agent-$ID/confirm.log; : > $LOG
cd $WT || exit 2
git diff > /tmp/agent-$ID/current.diff
echo "== build" >> $LOG
go build -o /tmp/agent-$ID/garble.confirm . >> $LOG 2>&1; BUILD=$?
echo "== suite" >> $LOG
export XDG_CACHE_HOME=/tmp/agent-$ID/xdg GOCACHE=/root/.cache/go-build
mkdir -p $XDG_CACHE_HOME; [ -d $XDG_CACHE_HOME/garble ] || cp -r /root/.cache/garble.bak $XDG_CACHE_HOME/garble
go test -vet=off -count=1 -timeout 60m ./... > /tmp/agent-$ID/confirm-suite.log 2>&1; SUITE=$?
FAILS=$(grep -E "^\s*--- FAIL" /tmp/agent-$ID/confirm-suite.log | sed 's/ (.*//' | sort -u | tr '\n' ';')
unset XDG_CACHE_HOME GOCACHE
echo "suite exit=$SUITE fails=$FAILS" >> $LOG
echo "== demo with patch" >> $LOG
bash $DST/demo/run_demo.sh $WT > /tmp/agent-$ID/confirm-demo-patched.log 2>&1; DP=$?
echo "== demo without patch" >> $LOG
rm -rf /tmp/agent-$ID/clean && mkdir -p /tmp/agent-$ID/clean && git -C $WT archive HEAD | tar -x -C /tmp/agent-$ID/clean
bash $DST/demo/run_demo.sh /tmp/agent-$ID/clean > /tmp/agent-$ID/confirm-demo-clean.log 2>&1; DC=$?
rm -rf /tmp/agent-$ID/clean
cat > $DST/confirm.json <<EOT
{"build_exit": $BUILD, "suite_exit": $SUITE, "suite_failures": "$FAILS", "demo_exit_with_patch": $DP, "demo_exit_without_patch": $DC, "confirmed_at": "$(date -Is)"}
EOT
cat $DST/confirm.json
